(* Property C06: a layout is a pure function of the labels and options.
   Statements only; every proof is `exact <lemma>`.

   Model: coq/Layout/Force.v = the engine state machine of coq/Layout/ForceState.v
   (labella/force.py; node objects with the fields an earlier layout leaves in
   them: currentPos, layerIndex, parent link, child flag, overlapCount) with the
   real per-layer solver of coq/Layout/Layer.v.
     force_run ops          the engine after the history ops (SetNodes / SetOptions / Compute)
     force_compute st       one compute() on the engine state st
     track ops              what the history says: (the node list last handed over, the options in force)
     layout_nodes e l       the stateless layout: a fresh engine with options e, the nodes l with
                            every stale field reset;  layout e labels: the same on fresh Node objects
     force_out st           per node identity: (layerIndex, currentPos)
     placed st              per node: (idealPos, width, layerIndex, currentPos)
     engine_dom e l         the documented domain (widths > 0, spacing, stub width >= 0, density > 0)
   Node identities are distinct (NoDup), as object identities are.  Outputs of
   two runs are compared as the same map identity -> (layer, position), written
   as a Permutation of the (identity, value) lists: the engine's own list order
   may differ (algorithm none lets removeOverlap sort the caller's list in place). *)
From Coq Require Import ZArith QArith List Bool Arith Permutation.
From Labella Require Base.QUtil Layout.Layer.
From Labella Require Import Layout.Distribute Layout.ForceState Layout.ForceStateProofs
  Layout.Force Layout.ForceProofs Layout.SimpleOrderProofs.
Import ListNotations.
Open Scope nat_scope.

(* a compute reads nothing an earlier layout left in the node objects: the
   same engine with every stale field reset (currentPos := idealPos, layer 0,
   no parent link, overlapCount 0) gives the same layout and reports the same layers *)
Theorem C06_scrub : forall st,
  engine_dom (st_opts st) (st_nodes st) ->
  force_out (force_compute st) = force_out (force_compute (scrub_state st)) /\
  st_layers (force_compute st) = st_layers (force_compute (scrub_state st)).
Proof. exact scrub_real. Qed.
Print Assumptions C06_scrub.

(* every Compute of every history: after ANY sequence of set-labels /
   set-options / compute calls (node objects in any stale state), a compute
   outputs the stateless layout of the current labels under the effective options *)
Theorem C06_history : forall ops,
  NoDup (map n_id (fst (track ops))) -> engine_dom (snd (track ops)) (fst (track ops)) ->
  Permutation (force_out (force_compute (force_run ops)))
              (force_out (layout_nodes (snd (track ops)) (fst (track ops)))) /\
  st_layers (force_compute (force_run ops)) = st_layers (layout_nodes (snd (track ops)) (fst (track ops))).
Proof. exact history_real. Qed.
Print Assumptions C06_history.

(* ... where the k-th Compute of a history is the compute after the prefix before it *)
Theorem C06_every_compute : forall pre post,
  force_trace init_state (pre ++ Compute :: post) =
  force_trace init_state pre ++ force_compute (force_run pre) :: force_trace (force_compute (force_run pre)) post.
Proof. exact trace_prefix. Qed.
Print Assumptions C06_every_compute.

(* corollaries.  Computing again on the same engine changes nothing *)
Theorem C06_recompute : forall st,
  NoDup (map n_id (st_nodes st)) -> engine_dom (st_opts st) (st_nodes st) ->
  Permutation (force_out (force_compute (force_compute st))) (force_out (force_compute st)) /\
  st_layers (force_compute (force_compute st)) = st_layers (force_compute st).
Proof. exact recompute_real. Qed.
Print Assumptions C06_recompute.

(* an engine with any past that is handed a second, different label list (fresh
   or previously laid-out objects) lays it out exactly like a fresh engine *)
Theorem C06_reuse : forall ops L,
  L <> [] -> NoDup (map n_id L) -> engine_dom (snd (track ops)) L ->
  Permutation (force_out (force_compute (force_run (ops ++ [SetNodes L]))))
              (force_out (layout_nodes (snd (track ops)) L)) /\
  st_layers (force_compute (force_run (ops ++ [SetNodes L]))) = st_layers (layout_nodes (snd (track ops)) L).
Proof. exact reuse_real. Qed.
Print Assumptions C06_reuse.

(* the stateless layout is what a fresh engine, configured once, computes *)
Theorem C06_fresh_engine : forall u L,
  L <> [] -> NoDup (map n_id L) -> engine_dom (apply_update default_eopts u) L ->
  Permutation (force_out (force_compute (force_run [SetOptions u; SetNodes L])))
              (force_out (layout_nodes (apply_update default_eopts u) L)) /\
  st_layers (force_compute (force_run [SetOptions u; SetNodes L])) =
  st_layers (layout_nodes (apply_update default_eopts u) L).
Proof. exact fresh_engine_real. Qed.
Print Assumptions C06_fresh_engine.

(* the same labels in a different input order: when labels that share a data
   position are the same label (ties_agree: same position, width), the layouts
   agree as multisets of (idealPos, width, layer, position).  Holds for all
   three algorithms, "none" included (there the layer is the unsorted input
   list and only removeOverlap's stable sort by target orders it). *)
Theorem C06_permutation : forall e L L',
  Permutation L L' -> NoDup (map n_id L) -> ties_agree L -> engine_dom e L ->
  Permutation (placed (layout_nodes e L)) (placed (layout_nodes e L')).
Proof. exact permutation_real. Qed.
Print Assumptions C06_permutation.

(* without the proviso: both sorts of the code are stable.  Labels with equal
   data positions enter the layering in their input order, and items of a layer
   with equal targets are solved in their layer-list order ... *)
Theorem C06_tie_order : forall l k e tbl prev lay,
  filter (fun nd => Qeq_bool (n_pos nd) k) (isort nleb l) = filter (fun nd => Qeq_bool (n_pos nd) k) l /\
  map fst (filter (fun x : ritem * litem => Qeq_bool (li_target (snd x)) k) (sorted_pairs e tbl prev lay)) =
  filter (fun r => Qeq_bool (target tbl prev r) k) lay.
Proof. intros; split; [apply position_sort_stable|apply target_sort_stable]. Qed.
Print Assumptions C06_tie_order.

(* ... and the input order is kept in the placement, for algorithm none, for
   algorithm simple, and for overlap when no greedy round runs:
   (1) in every layout that needs no split (algorithm none; no layer width;
   labels within the budget: the cases of C04_single, any algorithm) two labels
   with equal data positions are placed in their input order, whatever their widths *)
Theorem C06_tie_order_single_layer : forall st l1 a l2 b l3,
  engine_dom (st_opts st) (st_nodes st) -> NoDup (map n_id (st_nodes st)) -> lineSp_ok (st_opts st) ->
  distribute (dopts_of_eopts (st_opts st)) (map label_of (st_nodes st)) =
    Some [all_labels (length (st_nodes st))] ->
  st_nodes st = l1 ++ a :: l2 ++ b :: l3 -> (n_pos a == n_pos b)%Q ->
  forall a' b', In a' (st_nodes (force_compute st)) -> In b' (st_nodes (force_compute st)) ->
    n_id a' = n_id a -> n_id b' = n_id b -> (n_cur a' <= n_cur b')%Q.
Proof. exact tie_single_layer_real. Qed.
Print Assumptions C06_tie_order_single_layer.

(* (2) algorithm simple, any number of layers: every layer list is in the order
   of the position-sorted label list (labels and stubs interleaved), layer 0's
   targets ascend along it, the solver keeps that order, and the targets of the
   next layer are those positions; so two labels that end up in the SAME layer
   are placed in the order of the sorted list ... *)
Theorem C06_simple_order : forall st a b,
  e_alg (st_opts st) = AlgSimple ->
  engine_dom (st_opts st) (st_nodes st) -> NoDup (map n_id (st_nodes st)) -> lineSp_ok (st_opts st) ->
  before (remove_stub a) (remove_stub b) (isort nleb (map remove_stub (st_nodes st))) ->
  forall a' b', In a' (st_nodes (force_compute st)) -> In b' (st_nodes (force_compute st)) ->
    n_id a' = n_id a -> n_id b' = n_id b -> n_layer a' = n_layer b' -> (n_cur a' <= n_cur b')%Q.
Proof. exact simple_order_real. Qed.
Print Assumptions C06_simple_order.

(* ... in particular labels that share a data position (whatever their widths)
   and share a layer are placed in input order *)
Theorem C06_tie_order_simple : forall st l1 a l2 b l3,
  e_alg (st_opts st) = AlgSimple ->
  engine_dom (st_opts st) (st_nodes st) -> NoDup (map n_id (st_nodes st)) -> lineSp_ok (st_opts st) ->
  st_nodes st = l1 ++ a :: l2 ++ b :: l3 -> (n_pos a == n_pos b)%Q ->
  forall a' b', In a' (st_nodes (force_compute st)) -> In b' (st_nodes (force_compute st)) ->
    n_id a' = n_id a -> n_id b' = n_id b -> n_layer a' = n_layer b' -> (n_cur a' <= n_cur b')%Q.
Proof. exact tie_simple_real. Qed.
Print Assumptions C06_tie_order_simple.

(* ... but the statement's "otherwise their mutual order follows the input
   order" is FALSE for algorithm overlap once a greedy round runs: the loop
   re-sorts the layer list by overlap count (distributor.py:112-114) before
   removeOverlap's stable sort sees it.  Labels 0 (width 10) and 1 (width 60)
   share position 100, label 0 comes first in the input, both stay in layer 0,
   and label 1 is placed to the LEFT of label 0 (87 < 125).  labella computes
   exactly these numbers; recorded as the open finding tie-order-overlap. *)
Definition tie_labels : list label :=
  [mkLabel 100 10; mkLabel 100 60] ++
  map (fun i => mkLabel (inject_Z (500 + 3 * Z.of_nat i)) 50) (seq 0 12) ++
  [mkLabel 130 10; mkLabel 70 10].
Definition tie_opts : eopts := mkEopts AlgOverlap (Some 0%Q) (Some 1000%Q) (1 # 2) 3 1 None.

Theorem C06_tie_order_overlap_refuted : exists e labels ia ib k ca cb,
  e_alg e = AlgOverlap /\ engine_dom e (label_nodes labels) /\ NoDup (map n_id (label_nodes labels)) /\
  ia < ib /\ l_pos (nth ia labels label0) = l_pos (nth ib labels label0) /\
  nth_error (force_out (layout e labels)) ia = Some (ia, (k, ca)) /\
  nth_error (force_out (layout e labels)) ib = Some (ib, (k, cb)) /\
  (cb < ca)%Q.
Proof.
  exists tie_opts, tie_labels, 0, 1, 0, 125%Q, 87%Q.
  split; [reflexivity|].
  split; [apply DistributeProofs.dist_dom_b_sound; vm_compute; reflexivity|].
  split; [vm_compute; repeat constructor; cbn; intuition discriminate|].
  split; [auto|]. split; [reflexivity|]. split; [vm_compute; reflexivity|].
  split; [vm_compute; reflexivity|reflexivity].
Qed.
Print Assumptions C06_tie_order_overlap_refuted.

(* C01 over all layers: every reported layer of every compute, at any stub
   depth, is the layer model's answer to the problem removeOverlap is handed
   (compute_pairs: the layer's items in solver order with target, width,
   is_stub), that problem is in target order, and it satisfies C01_separation
   and C01_order (coq/Props/C01.v, stated there for arbitrary targets) *)
Theorem C01_all_layers : forall st,
  engine_dom (st_opts st) (st_nodes st) -> lineSp_ok (st_opts st) ->
  exists rep, st_layers (force_compute st) = Some rep /\
    Forall2 (fun (r : list report_item) (ps : list (ritem * litem)) =>
      let o := solver_opts (st_opts st) in
      let its := map (fun x => layer_item (snd x)) ps in
      map rshape r = map (fun x => shape (fst x)) ps /\
      map snd r = map inject_Z (Layer.solve_layer o its) /\
      Layer.sorted_items its = its /\
      (forall i j, i < j -> j < length its ->
         (QUtil.Qsum (QUtil.slice i j (Layer.gaps o its)) - 1 <=
          inject_Z (nth j (Layer.solve_layer o its) 0%Z) - inject_Z (nth i (Layer.solve_layer o its) 0%Z))%Q) /\
      (forall i j, i < j -> j < length its ->
         (nth i (Layer.solve_layer o its) 0 <= nth j (Layer.solve_layer o its) 0)%Z /\
         ((1 < QUtil.Qsum (QUtil.slice i j (Layer.gaps o its)))%Q ->
          (nth i (Layer.solve_layer o its) 0 < nth j (Layer.solve_layer o its) 0)%Z)))
      rep (compute_pairs st).
Proof. exact all_layers_real. Qed.
Print Assumptions C01_all_layers.

(* C02 targets: layers are solved nearest first; the target of an item of
   layer 0 is the ideal position of its label, the target of an item of layer
   j > 0 is the REPORTED position of its own stub (the one object with its
   label's identity, a stub) in layer j-1 *)
Theorem C02_targets : forall st,
  engine_dom (st_opts st) (st_nodes st) -> NoDup (map n_id (st_nodes st)) ->
  exists rep, st_layers (force_compute st) = Some rep /\
    forall j r li, In (r, li) (nth j (compute_pairs st) []) ->
      match j with
      | 0 => exists nd, In nd (st_nodes st) /\ n_id nd = r_id r /\ li_target li = n_pos nd
      | S j' => exists c, In (r_id r, true, c) (nth j' rep []) /\ li_target li = c /\
                          forall b c', In (r_id r, b, c') (nth j' rep []) -> b = true /\ c' = c
      end.
Proof. exact targets_real. Qed.
Print Assumptions C02_targets.

(* ---------- non-vacuity ------------------------------------------------------- *)
(* tests/test_force.py's dataset; 0..904 needs two layers, no upper bound one *)
Definition ex_labels : list label :=
  map (fun p => mkLabel (inject_Z (fst p)) (inject_Z (snd p)))
    [(1, 50); (2, 50); (3, 50); (3, 50); (3, 50); (304, 50); (454, 50); (454, 50); (454, 50);
     (804, 50); (804, 70); (804, 50); (804, 50); (854, 50); (854, 50)]%Z.
Definition u_narrow : eupdate := mkEupdate None (Some (Some 0%Q)) (Some (Some 904%Q)) None None None None.
Definition u_wide : eupdate := mkEupdate None None (Some None) None None None None.
Definition narrow : eopts := apply_update default_eopts u_narrow.

Example C06_ex_layout :
  engine_dom narrow (label_nodes ex_labels) /\ NoDup (map n_id (label_nodes ex_labels)) /\ lineSp_ok narrow /\
  map snd (force_out (layout narrow ex_labels)) =
    [(0, 25%Q); (0, 78%Q); (0, 131%Q); (0, 184%Q); (0, 237%Q); (0, 304%Q); (0, 401%Q); (0, 454%Q);
     (0, 507%Q); (0, 663%Q); (1, 798%Q); (0, 716%Q); (0, 769%Q); (0, 826%Q); (0, 879%Q)] /\
  st_layers (layout narrow ex_labels) =
    Some [[(0, false, 25%Q); (1, false, 78%Q); (2, false, 131%Q); (3, false, 184%Q); (4, false, 237%Q);
           (5, false, 304%Q); (6, false, 401%Q); (7, false, 454%Q); (8, false, 507%Q); (9, false, 663%Q);
           (11, false, 716%Q); (12, false, 769%Q); (10, true, 798%Q); (13, false, 826%Q); (14, false, 879%Q)];
          [(10, false, 798%Q)]].
Proof.
  split; [apply DistributeProofs.dist_dom_b_sound; vm_compute; reflexivity|].
  split; [vm_compute; repeat constructor; cbn; intuition discriminate|].
  split; [exact I|]. split; vm_compute; reflexivity.
Qed.

(* a history: lay out in two layers, re-compute, widen to one layer on the
   same (now stale) objects, narrow again, then the same objects reversed *)
Definition ex_history : list op :=
  [SetOptions u_narrow; SetNodes (label_nodes ex_labels); Compute; Compute;
   SetOptions u_wide; Compute; SetOptions u_narrow; Compute;
   SetNodes (rev (label_nodes ex_labels)); Compute].

Example C06_ex_history :
  map (fun st => map snd (force_out st)) (firstn 4 (force_trace init_state ex_history)) =
  [map snd (force_out (layout narrow ex_labels));
   map snd (force_out (layout narrow ex_labels));
   map snd (force_out (layout (apply_update narrow u_wide) ex_labels));
   map snd (force_out (layout narrow ex_labels))] /\
  ties_agree (label_nodes (firstn 10 ex_labels)) /\ ~ ties_agree (label_nodes ex_labels).
Proof.
  split; [vm_compute; reflexivity|]. split.
  - intros a b Ha Hb. vm_compute in Ha, Hb.
    repeat (destruct Ha as [<-|Ha]; [repeat (destruct Hb as [<-|Hb]; [vm_compute; first [reflexivity|discriminate]|]); destruct Hb|]).
    destruct Ha.
  - intro T. specialize (T (fresh_node 9 804 50) (fresh_node 10 804 70)).
    assert (H : core (fresh_node 9 804 50) = core (fresh_node 10 804 70)).
    { apply T; [vm_compute; tauto|vm_compute; tauto|reflexivity]. }
    discriminate H.
Qed.

(* hypotheses of C06_tie_order_single_layer: algorithm none on the dataset;
   labels 9 (804, 50) and 10 (804, 70) are tied with different widths and are
   placed in input order *)
Definition none_opts : eopts := mkEopts AlgNone (Some 0%Q) None (1 # 2) 3 1 None.
Example C06_ex_tie_single_layer :
  distribute (dopts_of_eopts none_opts) (map label_of (label_nodes ex_labels)) =
    Some [all_labels (length (label_nodes ex_labels))] /\
  engine_dom none_opts (label_nodes ex_labels) /\ lineSp_ok none_opts /\
  map snd (firstn 2 (skipn 9 (force_out (layout none_opts ex_labels)))) = [(0, 673%Q); (0, 736%Q)].
Proof.
  split; [vm_compute; reflexivity|].
  split; [apply DistributeProofs.dist_dom_b_sound; vm_compute; reflexivity|].
  split; [exact I|vm_compute; reflexivity].
Qed.

(* hypotheses of C06_tie_order_simple / C06_simple_order: algorithm simple, three
   layers; labels 9 (804, 50) and 12 (804, 64) are tied, differ in
   width, share layer 0 and are placed in input order *)
Definition simple_opts : eopts := mkEopts AlgSimple (Some 0%Q) (Some 904%Q) (3 # 8) 3 1 None.
Definition ex_labels2 : list label :=
  map (fun p => mkLabel (inject_Z (fst p)) (inject_Z (snd p)))
    [(1, 50); (2, 50); (3, 50); (3, 50); (3, 50); (304, 50); (454, 50); (454, 50); (454, 50);
     (804, 50); (804, 70); (804, 50); (804, 64); (854, 50); (854, 50)]%Z.
Example C06_ex_tie_simple :
  engine_dom simple_opts (label_nodes ex_labels2) /\ lineSp_ok simple_opts /\
  length (match st_layers (layout simple_opts ex_labels2) with Some l => l | None => [] end) = 3 /\
  map snd (firstn 1 (skipn 9 (force_out (layout simple_opts ex_labels2)))) ++
  map snd (firstn 1 (skipn 12 (force_out (layout simple_opts ex_labels2)))) = [(0, 765%Q); (0, 832%Q)].
Proof.
  split; [apply DistributeProofs.dist_dom_b_sound; vm_compute; reflexivity|].
  split; [exact I|]. split; vm_compute; reflexivity.
Qed.
