(* Property C01: items sharing a layer never overlap and keep the order of
   their targets.  Statements only; every proof is `exact <lemma>`.

   Vocabulary (coq/Layout/Layer.v, Pava.v, Base/QUtil.v):
     sorted_items its   the layer list after removeOverlap's stable sort by target
     solve_layer o its  the reported integer positions, in that order
     gaps o s           the required centre distances of neighbours:
                        (w1+w2)/2 + nodeSp, or + lineSp between two stubs
     slice i j g        g_i, ..., g_{j-1};   Qsum its sum;   qnth i l = l_i
   Not here (owned by the engine package): C01_all_layers, the composition
   over all layers of Force.compute(); the theorems below hold for ARBITRARY
   targets, so they apply to every layer whatever its stubs' positions are. *)
From Coq Require Import ZArith QArith List Bool Sorting.Permutation Sorting.Sorted.
From Labella Require Import Base.QUtil Base.QUtilProofs Base.Sort Base.SortProofs Layout.Pava Layout.PavaProofs
  Layout.Layer Layout.LayerProofs.
Import ListNotations.
Open Scope Q_scope.

(* the chain solver keeps every gap, for all desired positions, weights > 0
   and gaps *)
Theorem pava_feasible : forall d w g, chain_ok d w g ->
  forall i, (S i < length d)%nat ->
  qnth i g <= qnth (S i) (pava d w g) - qnth i (pava d w g).
Proof. exact pava_feasible_nth. Qed.
Print Assumptions pava_feasible.

(* the sorted list is the layer in the order of the targets (stable) *)
Theorem C01_sorted_is_target_order : forall its,
  Permutation its (sorted_items its) /\
  StronglySorted (fun a b => tgt a <= tgt b) (sorted_items its) /\
  (forall k, filter (fun a => Qeq_bool (tgt a) k) (sorted_items its) =
             filter (fun a => Qeq_bool (tgt a) k) its).
Proof. exact sorted_items_spec. Qed.
Print Assumptions C01_sorted_is_target_order.

(* one position per item *)
Theorem C01_length : forall o its, length (solve_layer o its) = length its.
Proof. exact solve_layer_length. Qed.
Print Assumptions C01_length.

(* reported positions follow the target order; strictly when the gaps between
   the two items sum to more than the rounding slack *)
Theorem C01_order : forall o its i j, opts_ok o -> items_ok its ->
  (i < j)%nat -> (j < length its)%nat ->
  let g := gaps o (sorted_items its) in
  let pos := solve_layer o its in
  (nth i pos 0 <= nth j pos 0)%Z /\
  (1 < Qsum (slice i j g) -> (nth i pos 0 < nth j pos 0)%Z).
Proof. exact C01_order_lemma. Qed.
Print Assumptions C01_order.

(* any two items are at least the sum of the gaps between them apart, less 1
   for rounding.  No hypothesis on the bounds, on fitting, or on the options. *)
Theorem C01_separation : forall o its i j, (i < j)%nat -> (j < length its)%nat ->
  let g := gaps o (sorted_items its) in
  let pos := solve_layer o its in
  Qsum (slice i j g) - 1 <= inject_Z (nth j pos 0%Z) - inject_Z (nth i pos 0%Z).
Proof. exact C01_separation_lemma. Qed.
Print Assumptions C01_separation.

(* ... hence at least their own pairwise gap less 1, when no item standing
   between two others is narrower than the spacing it could save *)
Theorem C01_pairwise : forall o its i j a c, chain_dominates o (sorted_items its) ->
  (i < j)%nat -> nth_error (sorted_items its) i = Some a -> nth_error (sorted_items its) j = Some c ->
  let pos := solve_layer o its in
  gap o a c - 1 <= inject_Z (nth j pos 0%Z) - inject_Z (nth i pos 0%Z).
Proof. exact C01_pairwise_lemma. Qed.
Print Assumptions C01_pairwise.

(* WITHOUT the guard the "any two items" reading of the property text is
   false -- of the model and of the code alike (known finding
   "stub-label-stub-gap").  Witness: layer 0 of  labels (0,40) (50.5,30)
   (50.5,0.25) (50.5,30) (100,40), minPos 0, maxPos 100, algorithm simple,
   nodeSpacing 0, density 1, stubWidth 1:  the two stubs are reported at 50 and
   51, 1 apart, where (1+1)/2 + lineSpacing - 1 = 2 is demanded; the label of
   width 0.25 between them is narrower than lineSp - 2 nodeSp = 2. *)
Theorem C01_pairwise_unguarded_refuted : exists o its i j a c,
  opts_ok o /\ items_ok its /\ (i < j)%nat /\
  nth_error (sorted_items its) i = Some a /\ nth_error (sorted_items its) j = Some c /\
  inject_Z (nth j (solve_layer o its) 0%Z) - inject_Z (nth i (solve_layer o its) 0%Z) < gap o a c - 1.
Proof.
  exists (mkOpts 0 2 (Some 0) (Some 100)).
  exists [mkItem 0 40 false; mkItem (101 # 2) 1 true; mkItem (101 # 2) (1 # 4) false;
          mkItem (101 # 2) 1 true; mkItem 100 40 false].
  exists 1%nat, 3%nat, (mkItem (101 # 2) 1 true), (mkItem (101 # 2) 1 true).
  split; [split; discriminate|]. split; [repeat constructor; discriminate|].
  split; [repeat constructor|]. vm_compute. repeat split; reflexivity.
Qed.
Print Assumptions C01_pairwise_unguarded_refuted.

(* the guard can fail only for a label narrower than lineSp - 2 nodeSp *)
Theorem C01_guard_simple : forall o s, opts_ok o -> items_ok s ->
  (forall b, In b s -> stub b = false -> lineSp o <= wid b + 2 * nodeSp o) ->
  chain_dominates o s.
Proof. exact chain_dominates_simple. Qed.
Print Assumptions C01_guard_simple.

(* non-vacuity: tests/test_force.py test_compute_1 (default options) *)
Definition ex_data : list item :=
  map (fun p => mkItem (inject_Z (fst p)) (inject_Z (snd p)) false)
    [(1, 50); (2, 50); (3, 50); (3, 50); (3, 50); (304, 50); (454, 50); (454, 50); (454, 50);
     (804, 50); (804, 70); (804, 50); (804, 50); (854, 50); (854, 50)]%Z.
Definition ex_opts : lopts := mkOpts 3 2 (Some 0) None.

Example C01_ex_dataset :
  solve_layer ex_opts ex_data =
  [25; 78; 131; 184; 237; 304; 401; 454; 507; 673; 736; 799; 852; 905; 958]%Z.
Proof. vm_compute. reflexivity. Qed.

Example C01_ex_hypotheses :
  opts_ok ex_opts /\ items_ok ex_data /\ chain_dominates ex_opts (sorted_items ex_data) /\
  chain_ok [0; 0; 0; 12] [1; 1; 1; 1] [10; 10; 10] /\
  map Qred (pava [0; 0; 0; 12] [1; 1; 1; 1] [10; 10; 10]) = [-12; -2; 8; 18].
Proof.
  assert (O : opts_ok ex_opts) by (split; discriminate).
  assert (I : items_ok ex_data) by (repeat constructor; discriminate).
  split; [exact O|]. split; [exact I|]. split.
  - apply chain_dominates_simple; [exact O|apply sorted_items_ok; exact I|].
    intros b Hb _. apply sort_in in Hb.
    assert (W : 50 <= wid b).
    { unfold ex_data in Hb. apply in_map_iff in Hb. destruct Hb as [[p w] [<- Hp]].
      cbn [wid fst snd]. repeat (destruct Hp as [Hp|Hp]; [injection Hp as <- <-; discriminate|]).
      destruct Hp. }
    cbn [lineSp nodeSp ex_opts]. apply (Qle_trans _ 50); [discriminate|].
    apply (Qle_trans _ (wid b + 0)); [rewrite Qplus_0_r; exact W|].
    apply Qplus_le_r. discriminate.
  - split; [|vm_compute; reflexivity].
    repeat split; repeat constructor.
Qed.

(* a stub/stub, stub/label layer with a narrow label between two stubs: the
   guard is false, the adjacent-pair statement still holds *)
Example C01_ex_guard_false :
  let o := mkOpts 0 2 (Some 0) None in
  let its := [mkItem 10 1 true; mkItem 10 (1 # 4) false; mkItem 10 1 true] in
  ~ chain_dominates o (sorted_items its) /\ solve_layer o its = [9; 10; 11]%Z.
Proof.
  split; [|vm_compute; reflexivity].
  intro D. specialize (D 0%nat 1%nat 2%nat _ _ _ (conj (Nat.lt_0_succ 0) (Nat.lt_succ_diag_r 1)) eq_refl eq_refl eq_refl).
  vm_compute in D. apply D. reflexivity.
Qed.

(* Any two items of a layer OF WHICH AT LEAST ONE IS A LABEL (not a stub) keep
   their pairwise distance, with NO chain_dominates guard: the gaps between
   them contain both half widths, every width in between, and the hop that
   leaves (or enters) a label always uses nodeSp -- only stub/stub hops use
   lineSp.  In particular two labels of one layer are at least
   (w_i + w_j)/2 + nodeSp - 1 apart (what the drawing, C08, relies on).  The
   open finding "stub-label-stub-gap" (C01_pairwise_unguarded_refuted above)
   concerns pairs of two STUBS only. *)
Theorem C01_pairwise_labels : forall o its i j a c, opts_ok o -> items_ok its ->
  (i < j)%nat -> nth_error (sorted_items its) i = Some a -> nth_error (sorted_items its) j = Some c ->
  stub a = false \/ stub c = false ->
  let pos := solve_layer o its in
  (wid a + wid c) / 2 + nodeSp o - 1 <= inject_Z (nth j pos 0%Z) - inject_Z (nth i pos 0%Z).
Proof. exact C01_pairwise_labels_lemma. Qed.
Print Assumptions C01_pairwise_labels.

(* non-vacuity: in the witness layer of C01_pairwise_unguarded_refuted the two
   labels 0 and 4 and the label/stub pairs are covered by C01_pairwise_labels
   although chain_dominates fails for the layer *)
Example C01_ex_pairwise_labels :
  let o := mkOpts 0 2 (Some 0) (Some 100) in
  let its := [mkItem 0 40 false; mkItem (101 # 2) 1 true; mkItem (101 # 2) (1 # 4) false;
              mkItem (101 # 2) 1 true; mkItem 100 40 false] in
  opts_ok o /\ items_ok its /\
  nth_error (sorted_items its) 2 = Some (mkItem (101 # 2) (1 # 4) false) /\
  solve_layer o its = [20; 50; 50; 51; 80]%Z.
Proof.
  split; [split; discriminate|]. split; [repeat constructor; discriminate|].
  vm_compute. split; reflexivity.
Qed.
