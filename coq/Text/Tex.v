(* Model of labella/tex.py:17-59 (uni2tex, as repaired by commit e2f326e) and of
   the reader that turns TeX accent commands back into combining marks.
   Text is a list of code points (N).  The Unicode decomposition table is a
   Section variable: every theorem is stated after the section closes, i.e.
   for an arbitrary table.  Model only: no proofs here. *)
From Coq Require Import NArith List Bool Ascii String.
Import ListNotations.
Open Scope N_scope.

(* ---------- the 15 literal accents (tex.py:19-35) ---------------------- *)
(* combining mark  |->  the character of the TeX accent command *)
Definition accents : list (N * N) :=
  [ (0x0300,  96)   (* ` grave      *)
  ; (0x0301,  39)   (* ' acute      *)
  ; (0x0302,  94)   (* ^ circumflex *)
  ; (0x0308,  34)   (* dquote diaeresis *)
  ; (0x030B,  72)   (* H double acute *)
  ; (0x0303, 126)   (* ~ tilde      *)
  ; (0x0327,  99)   (* c cedilla    *)
  ; (0x0328, 107)   (* k ogonek     *)
  ; (0x0304,  61)   (* = macron     *)
  ; (0x0331,  98)   (* b macron below *)
  ; (0x0307,  46)   (* . dot above  *)
  ; (0x0323, 100)   (* d dot below  *)
  ; (0x030A, 114)   (* r ring       *)
  ; (0x0306, 117)   (* u breve      *)
  ; (0x030C, 118)   (* v caron      *) ].

Fixpoint assoc (l : list (N * N)) (k : N) : option N :=
  match l with
  | [] => None
  | (a, b) :: r => if a =? k then Some b else assoc r k
  end.
Fixpoint rassoc (l : list (N * N)) (k : N) : option N :=
  match l with
  | [] => None
  | (a, b) :: r => if b =? k then Some a else rassoc r k
  end.

(* `accents[mark]` / `mark in accents` *)
Definition accent_cmd (m : N) : option N := assoc accents m.
Definition is_accent (m : N) : bool :=
  match accent_cmd m with Some _ => true | None => false end.
(* the reader's table: command character |-> combining mark *)
Definition cmd_mark (cmd : N) : option N := rassoc accents cmd.

Definition BSL : N := 92.   (* \ *)
Definition LBR : N := 123.  (* { *)
Definition RBR : N := 125.  (* } *)

Inductive tok : Type :=
| Plain (c : N)
| Accent (cmd base : N).   (* \cmd{base} *)

(* well-formed token: an accent token carries one of the 15 commands *)
Definition tok_wf (t : tok) : bool :=
  match t with
  | Plain _ => true
  | Accent cmd _ => match cmd_mark cmd with Some _ => true | None => false end
  end.

Definition render_tok (t : tok) : list N :=
  match t with
  | Plain c => [c]
  | Accent cmd b => [BSL; cmd; LBR; b; RBR]      (* format \\%s{%s} *)
  end.
Definition render (ts : list tok) : list N := flat_map render_tok ts.

(* reader on tokens: \cmd{base} |-> base followed by the combining mark.
   An ill-formed accent token (never produced, see u2t_total) reads as the
   literal text it renders to. *)
Definition read_tok (t : tok) : list N :=
  match t with
  | Plain c => [c]
  | Accent cmd b =>
      match cmd_mark cmd with Some m => [b; m] | None => render_tok t end
  end.
Definition tex2uni_tok (ts : list tok) : list N := flat_map read_tok ts.

(* reader on strings: every occurrence of  \ cmd { c }  with cmd one of the
   15 commands and c ANY single code point becomes  c mark ; everything else
   is copied. *)
Fixpoint tex2uni (s : list N) : list N :=
  match s with
  | [] => []
  | c :: r =>
      match r with
      | cmd :: o :: b :: cl :: rest =>
          match (if (c =? BSL) && (o =? LBR) && (cl =? RBR) then cmd_mark cmd else None) with
          | Some m => b :: m :: tex2uni rest
          | None => c :: tex2uni r
          end
      | _ => c :: tex2uni r
      end
  end.

Definition no_bsl (s : list N) : bool := forallb (fun c => negb (c =? BSL)) s.
Definition no_plain_bsl (ts : list tok) : bool :=
  forallb (fun t => match t with Plain c => negb (c =? BSL) | Accent _ _ => true end) ts.
Definition is_ascii (c : N) : bool := c <? 128.

(* completeness of the conversion, as a boolean on token lists: no Plain
   token is directly followed by a Plain accent it could have carried *)
Fixpoint no_residual_pair (ts : list tok) : bool :=
  match ts with
  | [] => true
  | t :: r =>
      match t, r with
      | Plain c, Plain m :: _ => negb (is_accent m && negb (is_accent c))
      | _, _ => true
      end && no_residual_pair r
  end.

Section Tables.
  (* unicodedata.decomposition(chr(c)).split(): the fields as code points and
     whether the first field is a compatibility tag `<...>` (the tag itself is
     not a field here).  An empty decomposition is None. *)
  Variable decomp : N -> option (list N * bool).

  (* the precomposed branch (tex.py:50-56): exactly two fields, no tag, the
     second one of the 15 accents  |->  (command, base) *)
  Definition precomposed (c : N) : option (N * N) :=
    match decomp c with
    | Some ([b; m], false) =>
        match accent_cmd m with Some cmd => Some (cmd, b) | None => None end
    | _ => None
    end.

  (* one character that is not consumed together with a following mark *)
  Definition single (c : N) : tok :=
    match precomposed c with Some (cmd, b) => Accent cmd b | None => Plain c end.

  (* the loop of tex.py:38-59.  At c with next code point m: if m is one of
     the accents and c is not -> \cmd{c}, both consumed; otherwise c alone. *)
  Fixpoint uni2tex_tok (s : list N) : list tok :=
    match s with
    | [] => []
    | c :: r =>
        match r with
        | m :: r' =>
            match accent_cmd m, accent_cmd c with
            | Some cmd, None => Accent cmd c :: uni2tex_tok r'
            | _, _ => single c :: uni2tex_tok r
            end
        | [] => single c :: uni2tex_tok r
        end
    end.

  Definition uni2tex (s : list N) : list N := render (uni2tex_tok s).

  (* what the reader gives back: the input with every precomposed character
     that the loop converts replaced by its own two-field canonical
     decomposition, everything else untouched *)
  Definition expand1 (c : N) : list N :=
    match decomp c with
    | Some ([b; m], false) => if is_accent m then [b; m] else [c]
    | _ => [c]
    end.
  Fixpoint expand (s : list N) : list N :=
    match s with
    | [] => []
    | c :: r =>
        match r with
        | m :: r' =>
            if is_accent m && negb (is_accent c) then c :: m :: expand r'
            else expand1 c ++ expand r
        | [] => expand1 c ++ expand r
        end
    end.

  (* the shape the property allows: the token list is the input with some
     base.mark pairs replaced by Accent cmd base (that base, the command of
     that mark) and some precomposed characters replaced by Accent cmd base
     (the base and mark of their canonical decomposition) *)
  Inductive conv : list N -> list tok -> Prop :=
  | conv_nil : conv [] []
  | conv_plain c s ts : conv s ts -> conv (c :: s) (Plain c :: ts)
  | conv_pair c m cmd s ts :
      accent_cmd m = Some cmd -> conv s ts -> conv (c :: m :: s) (Accent cmd c :: ts)
  | conv_pre c b m cmd s ts :
      decomp c = Some ([b; m], false) -> accent_cmd m = Some cmd ->
      conv s ts -> conv (c :: s) (Accent cmd b :: ts).

  (* canonical equivalence generated by the table: the least congruence that
     identifies a character with its (untagged) decomposition.  Real canonical
     equivalence also reorders marks; it contains this relation. *)
  Inductive ceq : list N -> list N -> Prop :=
  | ceq_refl s : ceq s s
  | ceq_sym s t : ceq s t -> ceq t s
  | ceq_trans s t u : ceq s t -> ceq t u -> ceq s u
  | ceq_app s s' t t' : ceq s s' -> ceq t t' -> ceq (s ++ t) (s' ++ t')
  | ceq_dec c fs : decomp c = Some (fs, false) -> ceq [c] fs.

  (* one level of canonical decomposition, and its n-fold iteration *)
  Definition nfd_step1 (c : N) : list N :=
    match decomp c with Some (fs, false) => fs | _ => [c] end.
  Definition nfd_step (s : list N) : list N := flat_map nfd_step1 s.
  Fixpoint nfd_iter (n : nat) (s : list N) : list N :=
    match n with O => s | S k => nfd_iter k (nfd_step s) end.
  (* the table's canonical decompositions are exhausted after d levels *)
  Definition depth_le (d : nat) : Prop :=
    forall c, nfd_iter (S d) [c] = nfd_iter d [c].

  (* ASCII has no convertible decomposition (boolean, checked on 0..127) *)
  Definition table_ok : bool :=
    forallb (fun k => match precomposed (N.of_nat k) with None => true | Some _ => false end)
            (seq 0 128).
End Tables.

(* a finite table as an association list (used by the API and the examples):
   entry = (code point, (fields, tagged)) *)
Fixpoint lookup (tbl : list (N * (list N * bool))) (c : N) : option (list N * bool) :=
  match tbl with
  | [] => None
  | (k, v) :: r => if k =? c then Some v else lookup r c
  end.

(* ---------- timeline.py:645-653 add_header_text ------------------------- *)
(* for i, node in enumerate(nodes): if node.data.text:
     \\def\\text%s{%s} % (int2name(i), uni2tex(node.data.text))
   A text is None (absent) or a list of code points; the empty string is
   falsy.  One output line per kept text; names are given as a function so
   that this file does not depend on Utils.v. *)
Section Header.
  Variable decomp : N -> option (list N * bool).
  Variable name : N -> list N.          (* int2name *)
  Definition def_text_prefix : list N := [92; 100; 101; 102; 92; 116; 101; 120; 116]. (* \def\text *)
  Definition header_line (i : N) (t : list N) : list N :=
    def_text_prefix ++ name i ++ [LBR] ++ uni2tex decomp t ++ [RBR].
  Fixpoint header_text_from (i : N) (texts : list (option (list N))) : list (list N) :=
    match texts with
    | [] => []
    | Some (c :: t) :: r => header_line i (c :: t) :: header_text_from (i + 1) r
    | _ :: r => header_text_from (i + 1) r
    end.
  Definition header_text := header_text_from 0.
End Header.

(* specification of the kept (position, text) pairs, used to state the
   header theorem *)
(* one entry per non-empty text, in order, numbered by the position of the
   node among ALL nodes (texts that are absent or empty still count) *)
Fixpoint kept_from (i : N) (texts : list (option (list N))) : list (N * list N) :=
  match texts with
  | [] => []
  | Some (c :: t) :: r => (i, c :: t) :: kept_from (i + 1) r
  | _ :: r => kept_from (i + 1) r
  end.

(* ---------- checking the depth hypothesis on a finite table ---------------- *)
Fixpoint text_eqb (a b : list N) : bool :=
  match a, b with
  | [], [] => true
  | x :: a', y :: b' => (x =? y) && text_eqb a' b'
  | _, _ => false
  end.
Definition depth_ok_b (tbl : list (N * (list N * bool))) (d : nat) : bool :=
  forallb (fun e => text_eqb (nfd_iter (lookup tbl) (S d) [fst e]) (nfd_iter (lookup tbl) d [fst e])) tbl.

(* ---------- tex.py:62-77 get_latex_fontdoc --------------------------------- *)
(* the document used to measure a label: the template with uni2tex(text) in
   three places and uni2tex(preamble) in one; fontsize is copied *)
Fixpoint cps (s : string) : list N :=
  match s with
  | EmptyString => []
  | String a r => N_of_ascii a :: cps r
  end.
Definition fd0 := cps "\documentclass[preview, ".
Definition fd1 := cps "]{standalone}
".
Definition fd2 := cps "%
\begin{document}
".
Definition fd3 := cps "%
\newlength{\lblwidth}%
\newlength{\lblheight}%
\settowidth{\lblwidth}{".
Definition fd4 := cps "}%
\settoheight{\lblheight}{".
Definition fd5 := cps "}%
\typeout{LABELWIDTH: \the\lblwidth}%
\typeout{LABELHEIGHT: \the\lblheight}%
\end{document}
".
Definition fontdoc_of (fontsize pre txt : list N) : list N :=
  fd0 ++ fontsize ++ fd1 ++ pre ++ fd2 ++ txt ++ fd3 ++ txt ++ fd4 ++ txt ++ fd5.
Definition fontdoc (decomp : N -> option (list N * bool)) (fontsize pre txt : list N) : list N :=
  fontdoc_of fontsize (uni2tex decomp pre) (uni2tex decomp txt).

(* a small concrete table for the non-vacuity examples (real Unicode data):
   e-acute, e-circumflex, e-circumflex-acute (two levels), A-ring, the
   Angstrom sign (a one-field canonical decomposition), no-break space and
   ellipsis (compatibility), combining Greek dialytika tonos (a mark whose
   decomposition ends in an accent) *)
Definition ex_tbl : list (N * (list N * bool)) :=
  [ (0xE9,   ([0x65; 0x301], false))
  ; (0xEA,   ([0x65; 0x302], false))
  ; (0x1EBF, ([0xEA; 0x301], false))
  ; (0xC5,   ([0x41; 0x30A], false))
  ; (0x212B, ([0xC5], false))
  ; (0xA0,   ([0x20], true))
  ; (0x2026, ([0x2E; 0x2E; 0x2E], true))
  ; (0x344,  ([0x308; 0x301], false)) ].
