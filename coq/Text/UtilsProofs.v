(* Proofs about Text/Utils.v (property C20). *)
From Coq Require Import ZArith NArith List Bool Lia ZifyBool ZifyN ZifyNat Arith.
From Labella Require Import Text.Utils.
Import ListNotations.
Ltac Zify.zify_post_hook ::= Z.to_euclidean_division_equations.
Open Scope N_scope.

(* ---------- fuel ------------------------------------------------------- *)

Lemma pos_lt_pow2_size p : N.pos p < 2 ^ N.of_nat (Pos.size_nat p).
Proof.
  induction p as [p IH|p IH|]; cbn [Pos.size_nat].
  - rewrite Nat2N.inj_succ, N.pow_succ_r'. lia.
  - rewrite Nat2N.inj_succ, N.pow_succ_r'. lia.
  - cbn. lia.
Qed.

Lemma N_lt_pow2_size n : n < 2 ^ N.of_nat (N.size_nat n).
Proof. destruct n as [|p]; [cbn; lia|apply pos_lt_pow2_size]. Qed.

Lemma loop_fuel_enough f : forall dv name,
  dv < 2 ^ N.of_nat f -> int2name_loop f dv name <> None.
Proof.
  induction f as [|f IH]; intros dv name H; cbn [int2name_loop].
  - cbn in H. assert (dv = 0) by lia. subst. cbn. discriminate.
  - destruct (dv =? 0) eqn:E; [discriminate|].
    apply IH. rewrite Nat2N.inj_succ, N.pow_succ_r' in H.
    assert (0 < 2 ^ N.of_nat f) by (apply N.neq_0_lt_0, N.pow_nonzero; lia).
    lia.
Qed.

Theorem int2name_fuel_enough i : int2name_opt i <> None.
Proof.
  unfold int2name_opt, int2name_fuel. apply loop_fuel_enough.
  rewrite Nat2N.inj_succ, N.pow_succ_r'.
  pose proof (N_lt_pow2_size (i + 1)). lia.
Qed.

(* ---------- the loop invariant ----------------------------------------- *)

Lemma loop_invariant f : forall dv name s,
  int2name_loop f dv name = Some s ->
  name2int_acc dv name = name2int_acc 0 s.
Proof.
  induction f as [|f IH]; intros dv name s H; cbn [int2name_loop] in H.
  - destruct (dv =? 0) eqn:E; [|discriminate]. injection H as <-.
    assert (dv = 0) by lia. subst. reflexivity.
  - destruct (dv =? 0) eqn:E.
    + injection H as <-. assert (dv = 0) by lia. subst. reflexivity.
    + apply IH in H. rewrite <- H. unfold name2int_acc. cbn [fold_left].
      f_equal. lia.
Qed.

Theorem name2int_int2name i : name2int (int2name i) = i.
Proof.
  unfold int2name. destruct (int2name_opt i) as [s|] eqn:E.
  - unfold int2name_opt in E. apply loop_invariant in E.
    unfold name2int. rewrite <- E. unfold name2int_acc. cbn. lia.
  - exfalso. exact (int2name_fuel_enough i E).
Qed.

Corollary int2name_injective i j : int2name i = int2name j -> i = j.
Proof.
  intro H. rewrite <- (name2int_int2name i), <- (name2int_int2name j), H. reflexivity.
Qed.

(* ---------- letters only, non-empty ------------------------------------ *)

Lemma loop_letters f : forall dv name s,
  int2name_loop f dv name = Some s ->
  forallb is_upper_letter name = true -> forallb is_upper_letter s = true.
Proof.
  induction f as [|f IH]; intros dv name s H Hn; cbn [int2name_loop] in H.
  - destruct (dv =? 0); [injection H as <-; exact Hn|discriminate].
  - destruct (dv =? 0) eqn:E; [injection H as <-; exact Hn|].
    apply IH in H; [exact H|]. cbn [forallb]. rewrite Hn.
    unfold is_upper_letter. lia.
Qed.

Theorem int2name_letters i : forallb is_upper_letter (int2name i) = true.
Proof.
  unfold int2name. destruct (int2name_opt i) as [s|] eqn:E; [|reflexivity].
  eapply loop_letters; [exact E|reflexivity].
Qed.

Lemma loop_length f : forall dv name s,
  int2name_loop f dv name = Some s -> (length name <= length s)%nat /\
  (dv <> 0 -> (length name < length s)%nat).
Proof.
  induction f as [|f IH]; intros dv name s H; cbn [int2name_loop] in H.
  - destruct (dv =? 0) eqn:E; [injection H as <-|discriminate]. split; lia.
  - destruct (dv =? 0) eqn:E; [injection H as <-; split; lia|].
    apply IH in H. cbn [length] in H. split; lia.
Qed.

Theorem int2name_nonempty i : int2name i <> [].
Proof.
  unfold int2name. destruct (int2name_opt i) as [s|] eqn:E.
  - unfold int2name_opt in E. apply loop_length in E. cbn in E.
    destruct s; [|discriminate]. cbn in E. lia.
  - exfalso. exact (int2name_fuel_enough i E).
Qed.

(* ---------- shortlex enumeration --------------------------------------- *)
(* val s = name2int_acc 0 s.  For letter-only names of length n,
   G n <= val s < G n + 26^n  with  G n = 1 + 26 + ... + 26^(n-1);
   and for equal lengths lex order is numeric order.                    *)

Fixpoint G (n : nat) : N := match n with O => 0 | S k => 26 * G k + 1 end.

Lemma acc_shift s : forall a,
  name2int_acc a s = a * 26 ^ N.of_nat (length s) + name2int_acc 0 s.
Proof.
  induction s as [|c s IH]; intro a; unfold name2int_acc in *; cbn [fold_left length].
  - cbn. lia.
  - rewrite IH. rewrite (IH (0 * 26 + _)). rewrite Nat2N.inj_succ, N.pow_succ_r'. lia.
Qed.

Lemma val_range s : forallb is_upper_letter s = true ->
  G (length s) <= name2int_acc 0 s < G (length s) + 26 ^ N.of_nat (length s).
Proof.
  induction s as [|c s IH]; intro H.
  - cbn. lia.
  - cbn [forallb] in H. apply andb_true_iff in H as [Hc Hs].
    specialize (IH Hs). unfold name2int_acc at 1 2. cbn [fold_left].
    fold (name2int_acc (0 * 26 + (c - 65 + 1)) s). rewrite acc_shift.
    cbn [length G]. rewrite Nat2N.inj_succ, N.pow_succ_r'.
    unfold is_upper_letter in Hc.
    assert (HG : forall n, 25 * G n + 1 = 26 ^ N.of_nat n).
    { induction n as [|n IHn]; [reflexivity|].
      cbn [G]. rewrite Nat2N.inj_succ, N.pow_succ_r'. lia. }
    pose proof (HG (length s)).
    set (P := 26 ^ N.of_nat (length s)) in *.
    set (g := G (length s)) in *.
    set (v := name2int_acc 0 s) in *.
    assert (1 <= c - 65 + 1 <= 26) by lia.
    nia.
Qed.

Lemma G_mono n m : (n < m)%nat -> G n + 26 ^ N.of_nat n <= G m.
Proof.
  assert (HG : forall n, 25 * G n + 1 = 26 ^ N.of_nat n).
  { induction n0 as [|n0 IHn]; [reflexivity|].
    cbn [G]. rewrite Nat2N.inj_succ, N.pow_succ_r'. lia. }
  induction 1 as [|m Hle IH].
  - cbn [G]. pose proof (HG n). lia.
  - cbn [G]. lia.
Qed.

Lemma lex_val a : forall b, length a = length b ->
  forallb is_upper_letter a = true -> forallb is_upper_letter b = true ->
  (lex_lt a b = true <-> name2int_acc 0 a < name2int_acc 0 b).
Proof.
  induction a as [|x a IH]; intros [|y b] Hl Ha Hb; try discriminate.
  - cbn. lia.
  - cbn [forallb] in Ha, Hb.
    apply andb_true_iff in Ha as [Hx Ha]. apply andb_true_iff in Hb as [Hy Hb].
    injection Hl as Hl. specialize (IH b Hl Ha Hb).
    pose proof (val_range a Ha) as Ra. pose proof (val_range b Hb) as Rb.
    rewrite <- Hl in Rb.
    unfold name2int_acc at 1 2. cbn [fold_left lex_lt].
    fold (name2int_acc (0 * 26 + (x - 65 + 1)) a).
    fold (name2int_acc (0 * 26 + (y - 65 + 1)) b).
    rewrite (acc_shift a), (acc_shift b). rewrite <- Hl.
    set (P := 26 ^ N.of_nat (length a)) in *.
    set (g := G (length a)) in *.
    unfold is_upper_letter in Hx, Hy.
    destruct (x <? y) eqn:Exy; cbn [orb].
    + split; [intros _|reflexivity]. assert (x - 65 + 1 + 1 <= y - 65 + 1) by lia. nia.
    + destruct (x =? y) eqn:Eeq; cbn [andb].
      * assert (x = y) by lia. subst y. rewrite IH. lia.
      * split; [discriminate|]. intro Hlt. exfalso.
        assert (y - 65 + 1 + 1 <= x - 65 + 1) by lia. nia.
Qed.

Lemma shortlex_val a b :
  forallb is_upper_letter a = true -> forallb is_upper_letter b = true ->
  (shortlex_lt a b = true <-> name2int_acc 0 a < name2int_acc 0 b).
Proof.
  intros Ha Hb. unfold shortlex_lt.
  pose proof (val_range a Ha) as Ra. pose proof (val_range b Hb) as Rb.
  destruct (Nat.ltb_spec (length a) (length b)) as [Hlt|Hge]; cbn [orb].
  - pose proof (G_mono _ _ Hlt). split; [intros _; lia|reflexivity].
  - destruct (Nat.eqb_spec (length a) (length b)) as [Heq|Hne]; cbn [andb].
    + apply lex_val; assumption.
    + assert (Hgt : (length b < length a)%nat) by lia.
      pose proof (G_mono _ _ Hgt). split; [discriminate|lia].
Qed.

Lemma val_int2name i : name2int_acc 0 (int2name i) = i + 1.
Proof.
  unfold int2name. destruct (int2name_opt i) as [s|] eqn:E.
  - unfold int2name_opt in E. apply loop_invariant in E. rewrite <- E.
    unfold name2int_acc. reflexivity.
  - exfalso. exact (int2name_fuel_enough i E).
Qed.

Theorem int2name_shortlex i j : i < j ->
  shortlex_lt (int2name i) (int2name j) = true.
Proof.
  intro H. apply shortlex_val; try apply int2name_letters.
  rewrite !val_int2name. lia.
Qed.

(* ---------- hex colours ------------------------------------------------ *)

Lemma hexval_upper c v : hexval c = Some v -> hexval (upper c) = Some v.
Proof.
  unfold hexval, upper.
  destruct ((48 <=? c) && (c <=? 57)) eqn:E1.
  - intro H. replace ((97 <=? c) && (c <=? 122)) with false by lia. rewrite E1. exact H.
  - destruct ((65 <=? c) && (c <=? 70)) eqn:E2.
    + intro H. replace ((97 <=? c) && (c <=? 122)) with false by lia. rewrite E1, E2. exact H.
    + destruct ((97 <=? c) && (c <=? 102)) eqn:E3; [|discriminate].
      intro H. injection H as <-.
      replace ((97 <=? c) && (c <=? 122)) with true by lia.
      replace ((48 <=? c - 32) && (c - 32 <=? 57)) with false by lia.
      replace ((65 <=? c - 32) && (c - 32 <=? 70)) with true by lia.
      f_equal. lia.
Qed.

Lemma hexval_upper_is_upper_hex c v : hexval c = Some v -> is_upper_hex (upper c) = true.
Proof.
  unfold hexval, upper, is_upper_hex.
  destruct ((97 <=? c) && (c <=? 122)) eqn:E0;
  (destruct ((48 <=? c) && (c <=? 57)) eqn:E1; [intros _; lia|]);
  (destruct ((65 <=? c) && (c <=? 70)) eqn:E2; [intros _; lia|]);
  (destruct ((97 <=? c) && (c <=? 102)) eqn:E3; [intros _; lia|discriminate]).
Qed.

Lemma hexval_lt16 c v : hexval c = Some v -> v < 16.
Proof.
  unfold hexval.
  destruct ((48 <=? c) && (c <=? 57)) eqn:E1; [intro H; injection H as <-; lia|].
  destruct ((65 <=? c) && (c <=? 70)) eqn:E2; [intro H; injection H as <-; lia|].
  destruct ((97 <=? c) && (c <=? 102)) eqn:E3; [intro H; injection H as <-; lia|discriminate].
Qed.

Lemma hex2dec2_upper a b v : hex2dec2 a b = Some v -> hex2dec2 (upper a) (upper b) = Some v.
Proof.
  unfold hex2dec2. destruct (hexval a) as [x|] eqn:Ea; [|discriminate].
  destruct (hexval b) as [y|] eqn:Eb; [|discriminate].
  rewrite (hexval_upper _ _ Ea), (hexval_upper _ _ Eb). trivial.
Qed.

Lemma hex2dec2_lt256 a b v : hex2dec2 a b = Some v -> v < 256.
Proof.
  unfold hex2dec2. destruct (hexval a) as [x|] eqn:Ea; [|discriminate].
  destruct (hexval b) as [y|] eqn:Eb; [|discriminate].
  intro H. injection H as <-.
  pose proof (hexval_lt16 _ _ Ea). pose proof (hexval_lt16 _ _ Eb). lia.
Qed.

(* decimal printing and parsing agree on every channel value: a finite
   domain (0..255), decided exhaustively by computation *)
Definition dec_roundtrip_ok (rest : list N) (n : N) : bool :=
  match parse_dec_acc (str_of_N n ++ rest) 0 false with
  | Some (m, r) => (m =? n) && (if list_eq_dec N.eq_dec r rest then true else false)
  | None => false
  end.

Definition all_below (k : N) (p : N -> bool) : bool :=
  N.recursion true (fun i acc => p i && acc) k.

Lemma all_below_spec p : forall k, all_below k p = true -> forall n, n < k -> p n = true.
Proof.
  intro k. unfold all_below. induction k as [|k IH] using N.peano_ind; intros H n Hn; [lia|].
  rewrite N.recursion_succ in H; [|reflexivity|intros ? ? -> ? ? ->; reflexivity].
  apply andb_true_iff in H as [Hk Hrest].
  destruct (N.eq_dec n k) as [->|Hne]; [exact Hk|apply IH; [exact Hrest|lia]].
Qed.

Lemma dec_roundtrip_comma n : n < 256 ->
  parse_dec_acc (str_of_N n ++ [44; 32] ++ nil) 0 false = Some (n, [44; 32]) /\
  parse_dec_acc (str_of_N n ++ [41]) 0 false = Some (n, [41]).
Proof.
  intro H.
  assert (A : all_below 256 (fun n => dec_roundtrip_ok [44; 32] n && dec_roundtrip_ok [41] n) = true)
    by (vm_compute; reflexivity).
  pose proof (all_below_spec _ _ A n H) as B. cbn beta in B.
  apply andb_true_iff in B as [B1 B2]. unfold dec_roundtrip_ok in B1, B2.
  split.
  - cbn [app]. destruct (parse_dec_acc (str_of_N n ++ [44; 32]) 0 false) as [[m r]|]; [|discriminate].
    apply andb_true_iff in B1 as [Bm Br].
    destruct (list_eq_dec N.eq_dec r [44; 32]) as [->|]; [|discriminate].
    assert (m = n) by lia. subst. reflexivity.
  - destruct (parse_dec_acc (str_of_N n ++ [41]) 0 false) as [[m r]|]; [|discriminate].
    apply andb_true_iff in B2 as [Bm Br].
    destruct (list_eq_dec N.eq_dec r [41]) as [->|]; [|discriminate].
    assert (m = n) by lia. subst. reflexivity.
Qed.

Lemma parse_dec_stop s : forall acc seen c rest n,
  digitval c = None ->
  parse_dec_acc (s ++ c :: rest) acc seen = Some (n, c :: rest) ->
  forall rest', parse_dec_acc (s ++ c :: rest') acc seen = Some (n, c :: rest').
Proof.
  induction s as [|d s IH]; intros acc seen c rest n Hc H rest'; cbn [app parse_dec_acc] in *.
  - rewrite Hc in *. destruct seen; [|discriminate]. inversion H. reflexivity.
  - destruct (digitval d) as [dv|].
    + eapply IH; eassumption.
    + destruct seen; [|discriminate]. exfalso.
      inversion H as [[Hn Hd Hs]]. apply (f_equal (@length N)) in Hs.
      rewrite app_length in Hs. cbn in Hs. lia.
Qed.

Theorem rgbstr_roundtrip r g b : r < 256 -> g < 256 -> b < 256 ->
  parse_rgbstr ([114; 103; 98; 40] ++ str_of_N r ++ [44; 32] ++ str_of_N g
                ++ [44; 32] ++ str_of_N b ++ [41]) = Some (r, g, b).
Proof.
  intros Hr Hg Hb. unfold parse_rgbstr.
  change (expect [114; 103; 98; 40] ([114; 103; 98; 40] ++ ?x)) with (Some x).
  destruct (dec_roundtrip_comma r Hr) as [R1 _].
  destruct (dec_roundtrip_comma g Hg) as [G1 _].
  destruct (dec_roundtrip_comma b Hb) as [_ B2].
  cbn [app] in R1, G1.
  assert (Hcomma : digitval 44 = None) by reflexivity.
  replace (str_of_N r ++ [44; 32] ++ str_of_N g ++ [44; 32] ++ str_of_N b ++ [41])
    with (str_of_N r ++ 44 :: (32 :: str_of_N g ++ [44; 32] ++ str_of_N b ++ [41])) by reflexivity.
  rewrite (parse_dec_stop _ _ _ _ _ _ Hcomma R1).
  change (expect [44; 32] (44 :: 32 :: ?x)) with (Some x).
  replace (str_of_N g ++ [44; 32] ++ str_of_N b ++ [41])
    with (str_of_N g ++ 44 :: (32 :: str_of_N b ++ [41])) by reflexivity.
  rewrite (parse_dec_stop _ _ _ _ _ _ Hcomma G1).
  change (expect [44; 32] (44 :: 32 :: ?x)) with (Some x).
  cbv beta iota. rewrite B2. reflexivity.
Qed.

Lemma valid_code_shape code : valid_code code = true ->
  (exists a b c, strip_hash code = [a; b; c] /\ is_hex a = true /\ is_hex b = true /\ is_hex c = true) \/
  (exists a a' b b' c c', strip_hash code = [a; a'; b; b'; c; c'] /\
     is_hex a = true /\ is_hex a' = true /\ is_hex b = true /\ is_hex b' = true /\
     is_hex c = true /\ is_hex c' = true).
Proof.
  unfold valid_code. intro H. apply andb_true_iff in H as [Hl Hh].
  destruct (strip_hash code) as [|a [|a' [|b [|b' [|c [|c' [|x s]]]]]]]; cbn in Hl; try discriminate.
  - left. exists a, a', b. cbn [forallb] in Hh.
    repeat (apply andb_true_iff in Hh as [? Hh]). auto.
  - right. exists a, a', b, b', c, c'. cbn [forallb] in Hh.
    repeat (apply andb_true_iff in Hh as [? Hh]). auto 10.
Qed.

Lemma is_hex_val c : is_hex c = true -> exists v, hexval c = Some v.
Proof. unfold is_hex. destruct (hexval c) as [v|]; [eauto|discriminate]. Qed.

Theorem hex_total code : valid_code code = true -> exists t, hex2rgb code = Some t.
Proof.
  intro H. unfold hex2rgb, hex2dec2.
  destruct (valid_code_shape code H) as
    [(a & b & c & -> & Ha & Hb & Hc)|(a & a' & b & b' & c & c' & -> & Ha & Ha' & Hb & Hb' & Hc & Hc')].
  - destruct (is_hex_val _ Ha) as [x ->], (is_hex_val _ Hb) as [y ->], (is_hex_val _ Hc) as [z ->]. eauto.
  - destruct (is_hex_val _ Ha) as [x ->], (is_hex_val _ Ha') as [x' ->],
             (is_hex_val _ Hb) as [y ->], (is_hex_val _ Hb') as [y' ->],
             (is_hex_val _ Hc) as [z ->], (is_hex_val _ Hc') as [z' ->]. eauto.
Qed.

Theorem hex_agree code t : valid_code code = true -> hex2rgb code = Some t ->
  (exists s, hex2rgbstr code = Some s /\ parse_rgbstr s = Some t) /\
  triple_of_html (hex2html code) = Some t.
Proof.
  intros Hv Ht. split.
  - unfold hex2rgbstr. rewrite Ht. destruct t as [[r g] b]. eexists; split; [reflexivity|].
    unfold hex2rgb in Ht.
    assert (r < 256 /\ g < 256 /\ b < 256) as (Hr & Hg & Hb).
    { destruct (strip_hash code) as [|x1 [|x2 [|x3 [|x4 [|x5 [|x6 [|x7 s]]]]]]]; try discriminate.
      - destruct (hex2dec2 x1 x1) eqn:E1; [|discriminate].
        destruct (hex2dec2 x2 x2) eqn:E2; [|discriminate].
        destruct (hex2dec2 x3 x3) eqn:E3; [|discriminate].
        injection Ht as <- <- <-.
        repeat split; eapply hex2dec2_lt256; eassumption.
      - destruct (hex2dec2 x1 x2) eqn:E1; [|discriminate].
        destruct (hex2dec2 x3 x4) eqn:E2; [|discriminate].
        destruct (hex2dec2 x5 x6) eqn:E3; [|discriminate].
        injection Ht as <- <- <-.
        repeat split; eapply hex2dec2_lt256; eassumption. }
    apply rgbstr_roundtrip; assumption.
  - unfold hex2rgb in Ht. unfold hex2html, triple_of_html.
    destruct (valid_code_shape code Hv) as
      [(a & b & c & E & Ha & Hb & Hc)|(a & a' & b & b' & c & c' & E & Ha & Ha' & Hb & Hb' & Hc & Hc')];
      rewrite E in *; cbn [map].
    + destruct (is_hex_val _ Ha) as [x Hx], (is_hex_val _ Hb) as [y Hy], (is_hex_val _ Hc) as [z Hz].
      cbn [forallb].
      rewrite (hexval_upper_is_upper_hex _ _ Hx), (hexval_upper_is_upper_hex _ _ Hy),
              (hexval_upper_is_upper_hex _ _ Hz). cbn [andb].
      destruct (hex2dec2 a a) eqn:E1; [|discriminate].
      destruct (hex2dec2 b b) eqn:E2; [|discriminate].
      destruct (hex2dec2 c c) eqn:E3; [|discriminate].
      rewrite (hex2dec2_upper _ _ _ E1), (hex2dec2_upper _ _ _ E2), (hex2dec2_upper _ _ _ E3).
      exact Ht.
    + destruct (is_hex_val _ Ha) as [x Hx], (is_hex_val _ Ha') as [x' Hx'],
               (is_hex_val _ Hb) as [y Hy], (is_hex_val _ Hb') as [y' Hy'],
               (is_hex_val _ Hc) as [z Hz], (is_hex_val _ Hc') as [z' Hz'].
      cbn [forallb].
      rewrite (hexval_upper_is_upper_hex _ _ Hx), (hexval_upper_is_upper_hex _ _ Hx'),
              (hexval_upper_is_upper_hex _ _ Hy), (hexval_upper_is_upper_hex _ _ Hy'),
              (hexval_upper_is_upper_hex _ _ Hz), (hexval_upper_is_upper_hex _ _ Hz'). cbn [andb].
      destruct (hex2dec2 a a') eqn:E1; [|discriminate].
      destruct (hex2dec2 b b') eqn:E2; [|discriminate].
      destruct (hex2dec2 c c') eqn:E3; [|discriminate].
      rewrite (hex2dec2_upper _ _ _ E1), (hex2dec2_upper _ _ _ E2), (hex2dec2_upper _ _ _ E3).
      exact Ht.
Qed.

(* 3-digit codes are expanded by doubling each digit *)
Theorem hex3_doubles a b c :
  hex2rgb [a; b; c] = hex2rgb [a; a; b; b; c; c] \/ a = 35.
Proof.
  destruct (N.eq_dec a 35) as [->|Hne]; [right; reflexivity|left].
  unfold hex2rgb, strip_hash.
  destruct a as [|p]; [reflexivity|].
  do 6 (destruct p as [p|p|]; try reflexivity); try (exfalso; apply Hne; reflexivity).
Qed.
