(* Model of labella/utils.py: int2name, hex2rgb, hex2rgbstr, hex2html.
   Text is a list of code points (N).  Model only: no proofs here. *)
From Coq Require Import NArith List Bool.
Import ListNotations.
Open Scope N_scope.

(* ---------- int2name (utils.py:85-93) ---------------------------------- *)
(* div = i + 1; while div > 0: mod = (div-1) % 26; name = chr(65+mod)+name;
   div = (div - mod) // 26.   Letters are returned as code points 65..90. *)

Fixpoint int2name_loop (fuel : nat) (div : N) (name : list N) : option (list N) :=
  match fuel with
  | O => if div =? 0 then Some name else None       (* out of fuel: error value *)
  | S f =>
      if div =? 0 then Some name
      else let md := (div - 1) mod 26 in
           int2name_loop f ((div - md) / 26) ((65 + md) :: name)
  end.

(* number of binary digits of div bounds the number of base-26 digits *)
Definition int2name_fuel (i : N) : nat := S (N.size_nat (i + 1)).

Definition int2name_opt (i : N) : option (list N) :=
  int2name_loop (int2name_fuel i) (i + 1) [].

Definition int2name (i : N) : list N :=
  match int2name_opt i with Some s => s | None => [] end.

(* reader: bijective base 26, most significant letter first *)
Definition name2int_acc (acc : N) (s : list N) : N :=
  fold_left (fun a c => a * 26 + (c - 65 + 1)) s acc.
Definition name2int (s : list N) : N := name2int_acc 0 s - 1.

Definition is_upper_letter (c : N) : bool := (65 <=? c) && (c <=? 90).

(* shortlex order on names *)
Fixpoint lex_lt (a b : list N) : bool :=
  match a, b with
  | x :: a', y :: b' => (x <? y) || ((x =? y) && lex_lt a' b')
  | _, _ => false
  end.
Definition shortlex_lt (a b : list N) : bool :=
  Nat.ltb (length a) (length b) || (Nat.eqb (length a) (length b) && lex_lt a b).

(* ---------- hex colours (utils.py:48-82) -------------------------------- *)

Definition hexval (c : N) : option N :=
  if (48 <=? c) && (c <=? 57) then Some (c - 48)          (* 0-9 *)
  else if (65 <=? c) && (c <=? 70) then Some (c - 55)     (* A-F *)
  else if (97 <=? c) && (c <=? 102) then Some (c - 87)    (* a-f *)
  else None.

(* int(s, 16) for the two-character strings the code builds *)
Definition hex2dec2 (a b : N) : option N :=
  match hexval a, hexval b with
  | Some x, Some y => Some (x * 16 + y)
  | _, _ => None
  end.

Definition strip_hash (code : list N) : list N :=
  match code with
  | 35 :: rest => rest
  | _ => code
  end.

Definition hex2rgb (code : list N) : option (N * N * N) :=
  match strip_hash code with
  | [a; b; c] =>
      match hex2dec2 a a, hex2dec2 b b, hex2dec2 c c with
      | Some r, Some g, Some bl => Some (r, g, bl)
      | _, _, _ => None
      end
  | [a; a'; b; b'; c; c'] =>
      match hex2dec2 a a', hex2dec2 b b', hex2dec2 c c' with
      | Some r, Some g, Some bl => Some (r, g, bl)
      | _, _, _ => None
      end
  | _ => None   (* other lengths are outside the documented domain *)
  end.

(* str(int) for small non-negative ints: decimal digits, no leading zeros *)
Fixpoint dec_digits (fuel : nat) (n : N) (acc : list N) : list N :=
  match fuel with
  | O => acc
  | S f => let acc' := (48 + n mod 10) :: acc in
           if n / 10 =? 0 then acc' else dec_digits f (n / 10) acc'
  end.
Definition str_of_N (n : N) : list N := dec_digits (S (N.size_nat n)) n [].

(* "rgb(" ++ ", ".join(str(x)) ++ ")" *)
Definition hex2rgbstr (code : list N) : option (list N) :=
  match hex2rgb code with
  | Some (r, g, b) =>
      Some ([114; 103; 98; 40] ++ str_of_N r ++ [44; 32] ++ str_of_N g
            ++ [44; 32] ++ str_of_N b ++ [41])
  | None => None
  end.

Definition upper (c : N) : N := if (97 <=? c) && (c <=? 122) then c - 32 else c.

Definition hex2html (code : list N) : list N :=
  match strip_hash code with
  | [a; b; c] => map upper [a; a; b; b; c; c]
  | s => map upper s
  end.

(* ---------- readers used to state agreement ----------------------------- *)

Definition digitval (c : N) : option N :=
  if (48 <=? c) && (c <=? 57) then Some (c - 48) else None.

(* parse a decimal number prefix; returns value and rest *)
Fixpoint parse_dec_acc (s : list N) (acc : N) (seen : bool) : option (N * list N) :=
  match s with
  | c :: rest =>
      match digitval c with
      | Some d => parse_dec_acc rest (acc * 10 + d) true
      | None => if seen then Some (acc, s) else None
      end
  | [] => if seen then Some (acc, []) else None
  end.

Definition expect (p s : list N) : option (list N) :=
  (fix go p s := match p, s with
                 | [], _ => Some s
                 | x :: p', y :: s' => if x =? y then go p' s' else None
                 | _ :: _, [] => None
                 end) p s.

Definition parse_rgbstr (s : list N) : option (N * N * N) :=
  match expect [114; 103; 98; 40] s with
  | Some s1 =>
    match parse_dec_acc s1 0 false with
    | Some (r, s2) =>
      match expect [44; 32] s2 with
      | Some s3 =>
        match parse_dec_acc s3 0 false with
        | Some (g, s4) =>
          match expect [44; 32] s4 with
          | Some s5 =>
            match parse_dec_acc s5 0 false with
            | Some (b, [41]) => Some (r, g, b)
            | _ => None
            end
          | None => None
          end
        | None => None
        end
      | None => None
      end
    | None => None
    end
  | None => None
  end.

(* xcolor's {HTML}{RRGGBB}: six upper-case hex digits *)
Definition is_upper_hex (c : N) : bool :=
  ((48 <=? c) && (c <=? 57)) || ((65 <=? c) && (c <=? 70)).

Definition triple_of_html (s : list N) : option (N * N * N) :=
  match s with
  | [a; a'; b; b'; c; c'] =>
      if forallb is_upper_hex s then
        match hex2dec2 a a', hex2dec2 b b', hex2dec2 c c' with
        | Some r, Some g, Some bl => Some (r, g, bl)
        | _, _, _ => None
        end
      else None
  | _ => None
  end.

(* the documented input domain: optional '#', then 3 or 6 hex digits *)
Definition is_hex (c : N) : bool := match hexval c with Some _ => true | None => false end.
Definition valid_code (code : list N) : bool :=
  let s := strip_hash code in
  (Nat.eqb (length s) 3 || Nat.eqb (length s) 6) && forallb is_hex s.
