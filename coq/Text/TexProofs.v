(* Proofs about Text/Tex.v (property C19). *)
From Coq Require Import NArith List Bool Lia ZifyBool ZifyN ZifyNat Arith FinFun.
From Labella Require Import Text.Tex.
Import ListNotations.
Open Scope N_scope.

(* ---------- the accent table ------------------------------------------- *)

Lemma assoc_In l k v : assoc l k = Some v -> In (k, v) l.
Proof.
  induction l as [|[a b] l IH]; cbn [assoc]; [discriminate|].
  destruct (a =? k) eqn:E; intro H.
  - apply N.eqb_eq in E. inversion H. subst. left. reflexivity.
  - right. auto.
Qed.
Lemma rassoc_In l k v : rassoc l k = Some v -> In (v, k) l.
Proof.
  induction l as [|[a b] l IH]; cbn [rassoc]; [discriminate|].
  destruct (b =? k) eqn:E; intro H.
  - apply N.eqb_eq in E. inversion H. subst. left. reflexivity.
  - right. auto.
Qed.

Ltac each_accent H :=
  cbv [accents In] in H;
  repeat (destruct H as [H|H]; [inversion H; subst; clear H|]); [..|contradiction].

Lemma accent_cmd_mark m cmd : accent_cmd m = Some cmd -> cmd_mark cmd = Some m.
Proof. intro H. apply assoc_In in H. each_accent H; vm_compute; reflexivity. Qed.
Lemma cmd_mark_accent cmd m : cmd_mark cmd = Some m -> accent_cmd m = Some cmd.
Proof. intro H. apply rassoc_In in H. each_accent H; vm_compute; reflexivity. Qed.

(* every accent code point is a combining mark of the block U+0300..U+036F:
   not ASCII, not a backslash, not a brace *)
Lemma accent_range m cmd : accent_cmd m = Some cmd -> 0x300 <= m /\ m <= 0x331.
Proof. intro H. apply assoc_In in H. each_accent H; vm_compute; split; discriminate. Qed.
(* every command character is printable ASCII and none of  \ { }  *)
Lemma cmd_range m cmd : accent_cmd m = Some cmd ->
  33 < cmd /\ cmd < 127 /\ cmd <> BSL /\ cmd <> LBR /\ cmd <> RBR.
Proof. intro H. apply assoc_In in H. each_accent H; vm_compute; repeat split; discriminate. Qed.

Lemma accent_not_ascii m : is_ascii m = true -> accent_cmd m = None.
Proof.
  unfold is_ascii. intro H. destruct (accent_cmd m) eqn:E; [|reflexivity].
  apply accent_range in E. lia.
Qed.
Lemma is_accent_true m : is_accent m = true <-> exists cmd, accent_cmd m = Some cmd.
Proof.
  unfold is_accent. destruct (accent_cmd m) as [cmd|]; split; intro H; try discriminate.
  - exists cmd. reflexivity.
  - reflexivity.
  - destruct H as [? H]. discriminate.
Qed.

(* ---------- induction that follows the loop (one or two code points) ---- *)

Lemma list_ind2 (P : list N -> Prop) :
  P [] -> (forall c, P [c]) ->
  (forall c m r, P r -> P (m :: r) -> P (c :: m :: r)) ->
  forall s, P s.
Proof.
  intros H0 H1 H2 s.
  assert (G : P s /\ forall c, P (c :: s)).
  { induction s as [|a s [IHa IHb]]; [split; auto|].
    split; [apply IHb|]. intro c. apply H2; auto. }
  apply G.
Qed.

Lemma tex2uni_plain c R : (c =? BSL) = false -> tex2uni (c :: R) = c :: tex2uni R.
Proof.
  intro H. destruct R as [|x1 [|x2 [|x3 [|x4 R]]]]; cbn [tex2uni]; try reflexivity.
  rewrite H. reflexivity.
Qed.
Lemma tex2uni_accent cmd m b R : cmd_mark cmd = Some m ->
  tex2uni (BSL :: cmd :: LBR :: b :: RBR :: R) = b :: m :: tex2uni R.
Proof.
  intro H. cbn [tex2uni]. rewrite !N.eqb_refl. cbn [andb]. rewrite H. reflexivity.
Qed.

(* the reader on strings agrees with the reader on tokens as soon as no
   Plain token is a backslash (an Accent token may carry ANY base, even a
   backslash or a brace) *)
Lemma tex2uni_render ts :
  forallb tok_wf ts = true -> no_plain_bsl ts = true ->
  tex2uni (render ts) = tex2uni_tok ts.
Proof.
  unfold render, tex2uni_tok, no_plain_bsl.
  induction ts as [|t ts IH]; [reflexivity|].
  cbn [forallb flat_map]. intros W B.
  apply andb_prop in W. destruct W as [W1 W2].
  apply andb_prop in B. destruct B as [B1 B2].
  destruct t as [c|cmd b]; cbn [render_tok read_tok app].
  - rewrite tex2uni_plain; [|apply negb_true_iff; exact B1].
    rewrite IH; auto.
  - cbn [tok_wf] in W1. destruct (cmd_mark cmd) as [m|] eqn:E; [|discriminate].
    rewrite (tex2uni_accent _ _ _ _ E). cbn [app]. rewrite IH; auto.
Qed.

(* render is injective on token lists without a Plain backslash *)
Lemma render_injective ts1 : forall ts2,
  no_plain_bsl ts1 = true -> no_plain_bsl ts2 = true ->
  render ts1 = render ts2 -> ts1 = ts2.
Proof.
  unfold render, no_plain_bsl.
  induction ts1 as [|t1 ts1 IH]; intros [|t2 ts2]; cbn [forallb flat_map].
  - reflexivity.
  - intros _ _ H. destruct t2; discriminate.
  - intros _ _ H. destruct t1; discriminate.
  - intros B1 B2 H.
    apply andb_prop in B1. destruct B1 as [B1 B1'].
    apply andb_prop in B2. destruct B2 as [B2 B2'].
    destruct t1 as [c1|cmd1 b1], t2 as [c2|cmd2 b2]; cbn [render_tok app] in H.
    + inversion H as [[E1 E2]]. f_equal. apply IH; auto.
    + inversion H as [[E1 E2]]. subst c1. rewrite N.eqb_refl in B1. discriminate.
    + inversion H as [[E1 E2]]. subst c2. rewrite N.eqb_refl in B2. discriminate.
    + inversion H as [[E1 E2 E3]]. f_equal. apply IH; auto.
Qed.

(* the guard cannot be dropped: the same string is rendered by two token
   lists when a Plain backslash is allowed *)
Lemma render_not_injective :
  render [Plain 92; Plain 39; Plain 123; Plain 101; Plain 125] = render [Accent 39 101].
Proof. reflexivity. Qed.

Section Tables.
  Variable decomp : N -> option (list N * bool).
  Notation precomposed := (precomposed decomp).
  Notation single := (single decomp).
  Notation uni2tex_tok := (uni2tex_tok decomp).
  Notation uni2tex := (uni2tex decomp).
  Notation expand1 := (expand1 decomp).
  Notation expand := (expand decomp).
  Notation conv := (conv decomp).
  Notation ceq := (ceq decomp).
  Notation nfd_step := (nfd_step decomp).
  Notation nfd_iter := (nfd_iter decomp).

  Lemma precomposed_spec c cmd b : precomposed c = Some (cmd, b) ->
    exists m, decomp c = Some ([b; m], false) /\ accent_cmd m = Some cmd.
  Proof.
    unfold Tex.precomposed.
    destruct (decomp c) as [[[|b' [|m [|x fs]]] [|]]|]; try discriminate.
    destruct (accent_cmd m) as [cmd'|] eqn:E; [|discriminate].
    intro H. inversion H. subst. exists m. auto.
  Qed.
  Lemma precomposed_intro c b m cmd :
    decomp c = Some ([b; m], false) -> accent_cmd m = Some cmd ->
    precomposed c = Some (cmd, b).
  Proof. unfold Tex.precomposed. intros -> ->. reflexivity. Qed.

  (* unfolding equations of the loop *)
  Lemma u2t_nil : uni2tex_tok [] = [].
  Proof. reflexivity. Qed.
  Lemma u2t_one c : uni2tex_tok [c] = [single c].
  Proof. reflexivity. Qed.
  Lemma u2t_pair c m r cmd : accent_cmd m = Some cmd -> accent_cmd c = None ->
    uni2tex_tok (c :: m :: r) = Accent cmd c :: uni2tex_tok r.
  Proof. intros Hm Hc. cbn [Tex.uni2tex_tok]. rewrite Hm, Hc. reflexivity. Qed.
  Lemma u2t_single c m r : is_accent m && negb (is_accent c) = false ->
    uni2tex_tok (c :: m :: r) = single c :: uni2tex_tok (m :: r).
  Proof.
    unfold is_accent. intro H. cbn [Tex.uni2tex_tok].
    destruct (accent_cmd m), (accent_cmd c); try reflexivity. discriminate.
  Qed.
  Lemma u2t_cases c m :
    (exists cmd, accent_cmd m = Some cmd /\ accent_cmd c = None /\
                 is_accent m && negb (is_accent c) = true) \/
    is_accent m && negb (is_accent c) = false.
  Proof.
    unfold is_accent. destruct (accent_cmd m) as [cmd|], (accent_cmd c); auto.
    left. exists cmd. auto.
  Qed.

  (* ---- u2t_total: every token is well formed --------------------------- *)
  Lemma single_wf c : tok_wf (single c) = true.
  Proof.
    unfold Tex.single. destruct (precomposed c) as [[cmd b]|] eqn:E; [|reflexivity].
    apply precomposed_spec in E. destruct E as [m [_ E]].
    cbn [tok_wf]. rewrite (accent_cmd_mark _ _ E). reflexivity.
  Qed.
  Lemma u2t_wf s : forallb tok_wf (uni2tex_tok s) = true.
  Proof.
    induction s as [| c | c m r IH1 IH2] using list_ind2.
    - reflexivity.
    - rewrite u2t_one. cbn [forallb]. rewrite single_wf. reflexivity.
    - destruct (u2t_cases c m) as [[cmd [Hm [Hc _]]]|H].
      + rewrite (u2t_pair _ _ _ _ Hm Hc). cbn [forallb tok_wf].
        rewrite (accent_cmd_mark _ _ Hm). exact IH1.
      + rewrite (u2t_single _ _ _ H). cbn [forallb]. rewrite single_wf. exact IH2.
  Qed.

  (* ---- u2t_only_accents: the shape of the output ----------------------- *)
  Lemma conv_single c s ts : conv s ts -> conv (c :: s) (single c :: ts).
  Proof.
    intro H. unfold Tex.single. destruct (precomposed c) as [[cmd b]|] eqn:E.
    - apply precomposed_spec in E. destruct E as [m [E1 E2]].
      eapply conv_pre; eauto.
    - apply conv_plain. exact H.
  Qed.
  Lemma u2t_conv s : conv s (uni2tex_tok s).
  Proof.
    induction s as [| c | c m r IH1 IH2] using list_ind2.
    - constructor.
    - rewrite u2t_one. apply conv_single. constructor.
    - destruct (u2t_cases c m) as [[cmd [Hm [Hc _]]]|H].
      + rewrite (u2t_pair _ _ _ _ Hm Hc). apply conv_pair; assumption.
      + rewrite (u2t_single _ _ _ H). apply conv_single. exact IH2.
  Qed.

  (* ANY conversion of the allowed shape reads back canonically equivalent *)
  Lemma ceq_cons c s t : ceq s t -> ceq (c :: s) (c :: t).
  Proof. intro H. apply (ceq_app decomp [c] [c] s t); [apply ceq_refl|exact H]. Qed.
  Lemma conv_ceq s ts : conv s ts -> ceq (tex2uni_tok ts) s.
  Proof.
    unfold tex2uni_tok.
    induction 1 as [| c s ts _ IH | c m cmd s ts Hm _ IH | c b m cmd s ts Hd Hm _ IH];
      cbn [flat_map read_tok].
    - apply ceq_refl.
    - apply ceq_cons. exact IH.
    - rewrite (accent_cmd_mark _ _ Hm). cbn [app]. apply ceq_cons, ceq_cons. exact IH.
    - rewrite (accent_cmd_mark _ _ Hm).
      apply (ceq_app decomp [b; m] [c] _ s); [|exact IH].
      apply ceq_sym, ceq_dec. exact Hd.
  Qed.

  (* ---- the token round trip, exactly ------------------------------------ *)
  Lemma read_single c : read_tok (single c) = expand1 c.
  Proof.
    unfold Tex.single, Tex.precomposed, Tex.expand1, is_accent.
    destruct (decomp c) as [[[|b [|m [|x fs]]] [|]]|]; try reflexivity.
    destruct (accent_cmd m) as [cmd|] eqn:E; [|reflexivity].
    cbn [read_tok]. rewrite (accent_cmd_mark _ _ E). reflexivity.
  Qed.
  Lemma u2t_expand s : tex2uni_tok (uni2tex_tok s) = expand s.
  Proof.
    unfold tex2uni_tok.
    induction s as [| c | c m r IH1 IH2] using list_ind2.
    - reflexivity.
    - rewrite u2t_one. cbn [flat_map Tex.expand]. rewrite read_single. reflexivity.
    - destruct (u2t_cases c m) as [[cmd [Hm [Hc H]]]|H].
      + rewrite (u2t_pair _ _ _ _ Hm Hc). cbn [flat_map Tex.expand read_tok].
        rewrite H, (accent_cmd_mark _ _ Hm), IH1. reflexivity.
      + rewrite (u2t_single _ _ _ H). cbn [flat_map Tex.expand].
        rewrite H, read_single, IH2. reflexivity.
  Qed.

  Lemma expand_ceq s : ceq (expand s) s.
  Proof. rewrite <- u2t_expand. apply conv_ceq, u2t_conv. Qed.

  (* ---- canonical equivalence implies equal decompositions --------------- *)
  Lemma nfd_step_app s t : nfd_step (s ++ t) = nfd_step s ++ nfd_step t.
  Proof. apply flat_map_app. Qed.
  Lemma nfd_iter_app n : forall s t, nfd_iter n (s ++ t) = nfd_iter n s ++ nfd_iter n t.
  Proof.
    induction n as [|n IH]; intros s t; cbn [Tex.nfd_iter]; [reflexivity|].
    rewrite nfd_step_app. apply IH.
  Qed.
  Lemma ceq_nfd d s t : depth_le decomp d -> ceq s t -> nfd_iter d s = nfd_iter d t.
  Proof.
    intros D H.
    induction H as [s | s t _ IH | s t u _ IH1 _ IH2 | s s' t t' _ IH1 _ IH2 | c fs Hd].
    - reflexivity.
    - symmetry. exact IH.
    - congruence.
    - rewrite !nfd_iter_app. congruence.
    - rewrite <- (D c). cbn [Tex.nfd_iter Tex.nfd_step flat_map].
      unfold nfd_step1. rewrite Hd, app_nil_r. reflexivity.
  Qed.
  (* beyond the depth nothing changes any more *)
  Lemma depth_le_stable d : depth_le decomp d ->
    forall s, nfd_iter (S d) s = nfd_iter d s.
  Proof.
    intros D s. induction s as [|c s IH]; [clear D; induction d; auto|].
    change (c :: s) with ([c] ++ s). rewrite !nfd_iter_app, IH, (D c). reflexivity.
  Qed.

  (* ---- the string round trip -------------------------------------------- *)
  Lemma u2t_no_plain_bsl s : no_bsl s = true -> no_plain_bsl (uni2tex_tok s) = true.
  Proof.
    unfold no_bsl, no_plain_bsl.
    assert (S1 : forall c, negb (c =? BSL) = true ->
      (match single c with Plain c0 => negb (c0 =? BSL) | Accent _ _ => true end) = true).
    { intros c Hc. unfold Tex.single. destruct (precomposed c) as [[? ?]|]; auto. }
    induction s as [| c | c m r IH1 IH2] using list_ind2.
    - reflexivity.
    - rewrite u2t_one. cbn [forallb]. rewrite !andb_true_r. apply S1.
    - intro H. cbn [forallb] in H.
      apply andb_prop in H. destruct H as [Hc H]. pose proof H as Hmr.
      apply andb_prop in H. destruct H as [_ Hr].
      destruct (u2t_cases c m) as [[cmd [Hm [Hc' _]]]|H'].
      + rewrite (u2t_pair _ _ _ _ Hm Hc'). cbn [forallb]. apply IH1. exact Hr.
      + rewrite (u2t_single _ _ _ H'). cbn [forallb]. rewrite (S1 _ Hc). apply IH2. exact Hmr.
  Qed.

  Lemma u2t_roundtrip_str_tok s : no_plain_bsl (uni2tex_tok s) = true ->
    tex2uni (uni2tex s) = expand s.
  Proof.
    intro H. unfold Tex.uni2tex. rewrite tex2uni_render; auto using u2t_wf, u2t_expand.
  Qed.

  (* ---- ASCII is untouched ------------------------------------------------ *)
  Lemma table_ok_ascii c : table_ok decomp = true -> is_ascii c = true -> precomposed c = None.
  Proof.
    unfold table_ok, is_ascii. intros T H.
    rewrite forallb_forall in T. specialize (T (N.to_nat c)).
    rewrite N2Nat.id in T.
    destruct (precomposed c); [|reflexivity].
    assert (I : In (N.to_nat c) (seq 0 128)) by (apply in_seq; lia).
    apply T in I. discriminate.
  Qed.
  Lemma render_plain s : render (map Plain s) = s.
  Proof. unfold render. induction s as [|c s IH]; cbn [map flat_map render_tok app]; congruence. Qed.
  Lemma u2t_ascii_tok s : table_ok decomp = true -> forallb is_ascii s = true ->
    uni2tex_tok s = map Plain s.
  Proof.
    intros T.
    assert (S1 : forall c, is_ascii c = true -> single c = Plain c).
    { intros c Hc. unfold Tex.single. rewrite (table_ok_ascii _ T Hc). reflexivity. }
    induction s as [| c | c m r IH1 IH2] using list_ind2; intro H.
    - reflexivity.
    - cbn [forallb] in H. rewrite andb_true_r in H. rewrite u2t_one, S1; auto.
    - cbn [forallb] in H. apply andb_prop in H. destruct H as [Hc Hmr].
      pose proof Hmr as Hmr'. cbn [forallb] in Hmr'. apply andb_prop in Hmr'. destruct Hmr' as [Hm _].
      rewrite u2t_single.
      + rewrite S1, IH2; auto.
      + unfold is_accent at 1. rewrite (accent_not_ascii _ Hm). reflexivity.
  Qed.
  Lemma u2t_ascii_id s : table_ok decomp = true -> forallb is_ascii s = true -> uni2tex s = s.
  Proof. intros T H. unfold Tex.uni2tex. rewrite u2t_ascii_tok, render_plain; auto. Qed.

  (* ---- completeness: whatever can be converted is converted -------------- *)
  Lemma u2t_head m r :
    (exists ts, uni2tex_tok (m :: r) = Plain m :: ts) \/
    (exists cmd b ts, uni2tex_tok (m :: r) = Accent cmd b :: ts).
  Proof.
    assert (S1 : forall ts, (exists ts', single m :: ts = Plain m :: ts') \/
                            (exists cmd b ts', single m :: ts = Accent cmd b :: ts')).
    { intro ts. unfold Tex.single. destruct (precomposed m) as [[cmd b]|]; eauto. }
    destruct r as [|m' r]; [rewrite u2t_one; apply S1|].
    destruct (u2t_cases m m') as [[cmd [Hm [Hc _]]]|H].
    - rewrite (u2t_pair _ _ _ _ Hm Hc). eauto.
    - rewrite (u2t_single _ _ _ H). apply S1.
  Qed.
  Lemma u2t_no_residual s : no_residual_pair (uni2tex_tok s) = true.
  Proof.
    induction s as [| c | c m r IH1 IH2] using list_ind2.
    - reflexivity.
    - rewrite u2t_one. cbn. destruct (single c); reflexivity.
    - destruct (u2t_cases c m) as [[cmd [Hm [Hc _]]]|H].
      + rewrite (u2t_pair _ _ _ _ Hm Hc). cbn [no_residual_pair]. exact IH1.
      + rewrite (u2t_single _ _ _ H). cbn [no_residual_pair]. rewrite IH2, andb_true_r.
        destruct (single c) as [c'|] eqn:E; [|reflexivity].
        assert (c' = c).
        { unfold Tex.single in E. destruct (precomposed c) as [[? ?]|]; inversion E; reflexivity. }
        subst c'.
        destruct (u2t_head m r) as [[ts ->]|[cmd [b [ts ->]]]]; [|reflexivity].
        rewrite H. reflexivity.
  Qed.
  Lemma u2t_plain_not_convertible s c : In (Plain c) (uni2tex_tok s) -> precomposed c = None.
  Proof.
    assert (S1 : forall x, single x = Plain c -> precomposed c = None).
    { intros x E. unfold Tex.single in E. destruct (precomposed x) as [[? ?]|] eqn:P; inversion E.
      subst. exact P. }
    induction s as [| x | x m r IH1 IH2] using list_ind2.
    - intros [].
    - rewrite u2t_one. intros [E|[]]. eauto.
    - destruct (u2t_cases x m) as [[cmd [Hm [Hc _]]]|H].
      + rewrite (u2t_pair _ _ _ _ Hm Hc). intros [E|E]; [discriminate|auto].
      + rewrite (u2t_single _ _ _ H). intros [E|E]; eauto.
  Qed.

  (* ---- texts with the same TeX are canonically equivalent ----------------- *)
  Lemma u2t_injective_ceq s s' :
    no_plain_bsl (uni2tex_tok s) = true -> no_plain_bsl (uni2tex_tok s') = true ->
    uni2tex s = uni2tex s' -> ceq s s'.
  Proof.
    intros B B' E. unfold Tex.uni2tex in E.
    apply render_injective in E; auto.
    apply (ceq_trans decomp s (expand s) s').
    - apply ceq_sym, expand_ceq.
    - rewrite <- u2t_expand, E, u2t_expand. apply expand_ceq.
  Qed.

  (* ---- structure: lengths, locality -------------------------------------- *)
  Lemma u2t_length s :
    (length (uni2tex_tok s) <= length s <= 2 * length (uni2tex_tok s))%nat.
  Proof.
    induction s as [| c | c m r IH1 IH2] using list_ind2.
    - cbn. lia.
    - cbn. lia.
    - destruct (u2t_cases c m) as [[cmd [Hm [Hc _]]]|H].
      + rewrite (u2t_pair _ _ _ _ Hm Hc). cbn [length] in *. lia.
      + rewrite (u2t_single _ _ _ H). cbn [length] in *. lia.
  Qed.

  (* the conversion is local: a text can be cut in front of any code point
     that is not one of the 15 accents *)
  Lemma u2t_app s1 : forall s2,
    match s2 with m :: _ => accent_cmd m = None | [] => True end ->
    uni2tex_tok (s1 ++ s2) = uni2tex_tok s1 ++ uni2tex_tok s2.
  Proof.
    induction s1 as [| c | c m r IH1 IH2] using list_ind2; intros s2 H.
    - reflexivity.
    - destruct s2 as [|m r]; [reflexivity|].
      cbn [app]. rewrite u2t_single, u2t_one; [reflexivity|].
      unfold is_accent at 1. rewrite H. reflexivity.
    - cbn [app]. destruct (u2t_cases c m) as [[cmd [Hm [Hc _]]]|H'].
      + rewrite !(u2t_pair _ _ _ _ Hm Hc). rewrite IH1; auto.
      + rewrite !(u2t_single _ _ _ H'). specialize (IH2 s2 H). cbn [app] in IH2.
        rewrite IH2. reflexivity.
  Qed.
  Lemma render_app ts1 ts2 : render (ts1 ++ ts2) = render ts1 ++ render ts2.
  Proof. apply flat_map_app. Qed.

  (* an output backslash that starts an accent command comes only from an
     Accent token: count of Accent tokens = number of replaced places *)
  Lemma u2t_render_length s :
    length (uni2tex s) =
    (length (uni2tex_tok s) +
     4 * length (filter (fun t => match t with Accent _ _ => true | _ => false end) (uni2tex_tok s)))%nat.
  Proof.
    unfold Tex.uni2tex, render. induction (uni2tex_tok s) as [|t ts IH]; [reflexivity|].
    cbn [flat_map filter]. rewrite app_length, IH.
    destruct t; cbn [render_tok length]; lia.
  Qed.
End Tables.

(* ---------- the header lines (timeline.py add_header_text) --------------- *)
  Lemma kept_from_bounds texts : forall i p, In p (kept_from i texts) ->
    i <= fst p /\ fst p < i + N.of_nat (length texts).
  Proof.
    induction texts as [|[[|c t]|] r IH]; intros i p H; cbn [kept_from length] in *;
      try contradiction.
    - apply IH in H. lia.
    - destruct H as [H|H]; [subst; cbn; lia|apply IH in H; lia].
    - apply IH in H. lia.
  Qed.
  Lemma kept_from_nodup texts : forall i, NoDup (map fst (kept_from i texts)).
  Proof.
    induction texts as [|[[|c t]|] r IH]; intro i; cbn [kept_from map fst]; auto.
    - constructor.
    - constructor; [|apply IH].
      intro H. apply in_map_iff in H. destruct H as [p [E H]].
      apply kept_from_bounds in H. lia.
  Qed.
Section Header.
  Variable decomp : N -> option (list N * bool).
  Variable name : N -> list N.

  Lemma header_text_spec texts : forall i,
    header_text_from decomp name i texts =
    map (fun p => header_line decomp name (fst p) (snd p)) (kept_from i texts).
  Proof.
    induction texts as [|[[|c t]|] r IH]; intro i; cbn [header_text_from kept_from map fst snd];
      rewrite ?IH; reflexivity.
  Qed.
End Header.

(* ---------- finite tables ------------------------------------------------ *)
Lemma lookup_cases tbl c : lookup tbl c = None \/ In c (map fst tbl).
Proof.
  induction tbl as [|[k v] tbl IH]; cbn [lookup map fst In]; [left; reflexivity|].
  destruct (k =? c) eqn:E.
  - right. left. apply N.eqb_eq. exact E.
  - destruct IH; auto.
Qed.
Lemma nfd_iter_nodecomp decomp c n :
  match decomp c with Some (_, false) => False | _ => True end ->
  nfd_iter decomp n [c] = [c].
Proof.
  intro H. induction n as [|n IH]; [reflexivity|].
  cbn [nfd_iter nfd_step flat_map]. unfold nfd_step1.
  destruct (decomp c) as [[fs [|]]|]; try contradiction; cbn [app]; exact IH.
Qed.

Lemma kept_names_nodup (name : N -> list N) texts i :
  (forall a b, name a = name b -> a = b) ->
  NoDup (map (fun p => name (fst p)) (kept_from i texts)).
Proof.
  intro Inj. rewrite <- (map_map fst name).
  apply FinFun.Injective_map_NoDup; [exact Inj|apply kept_from_nodup].
Qed.

(* the depth hypothesis can be CHECKED on a finite table *)
Lemma text_eqb_eq a : forall b, text_eqb a b = true -> a = b.
Proof.
  induction a as [|x a IH]; intros [|y b] H; cbn [text_eqb] in H; try discriminate; [reflexivity|].
  apply andb_prop in H. destruct H as [H1 H2]. apply N.eqb_eq in H1. f_equal; auto.
Qed.
Lemma depth_ok_b_sound tbl d : depth_ok_b tbl d = true -> depth_le (lookup tbl) d.
Proof.
  unfold depth_ok_b. intros H c. rewrite forallb_forall in H.
  destruct (lookup_cases tbl c) as [E|E].
  - rewrite !nfd_iter_nodecomp by (rewrite E; exact I). reflexivity.
  - apply in_map_iff in E. destruct E as [e [E1 E2]]. subst c.
    apply text_eqb_eq. apply H. exact E2.
Qed.

(* get_latex_fontdoc on ASCII text and preamble is the plain template *)
Lemma fontdoc_ascii decomp fs pre txt :
  table_ok decomp = true -> forallb is_ascii pre = true -> forallb is_ascii txt = true ->
  fontdoc decomp fs pre txt = fontdoc_of fs pre txt.
Proof. intros T P X. unfold fontdoc. rewrite !u2t_ascii_id; auto. Qed.

(* ---------- the statements of Props/C19.v that combine several lemmas ------ *)
Lemma u2t_roundtrip_tok decomp s : ceq decomp (tex2uni_tok (uni2tex_tok decomp s)) s.
Proof. exact (conv_ceq decomp s _ (u2t_conv decomp s)). Qed.
Lemma u2t_roundtrip_tok_nfd decomp d s : depth_le decomp d ->
  nfd_iter decomp d (tex2uni_tok (uni2tex_tok decomp s)) = nfd_iter decomp d s.
Proof. intro D. exact (ceq_nfd decomp d _ _ D (u2t_roundtrip_tok decomp s)). Qed.
Lemma u2t_roundtrip_str_weak decomp s :
  no_plain_bsl (uni2tex_tok decomp s) = true ->
  tex2uni (uni2tex decomp s) = expand decomp s /\
  ceq decomp (tex2uni (uni2tex decomp s)) s.
Proof.
  intro H. rewrite (u2t_roundtrip_str_tok decomp s H).
  split; [reflexivity|exact (expand_ceq decomp s)].
Qed.
Lemma u2t_roundtrip_str decomp s : no_bsl s = true ->
  tex2uni (uni2tex decomp s) = expand decomp s /\
  ceq decomp (tex2uni (uni2tex decomp s)) s.
Proof. intro H. exact (u2t_roundtrip_str_weak decomp s (u2t_no_plain_bsl decomp s H)). Qed.
Lemma u2t_roundtrip_str_nfd decomp d s : depth_le decomp d -> no_bsl s = true ->
  nfd_iter decomp d (tex2uni (uni2tex decomp s)) = nfd_iter decomp d s.
Proof.
  intros D H. destruct (u2t_roundtrip_str decomp s H) as [_ C].
  exact (ceq_nfd decomp d _ _ D C).
Qed.
Lemma u2t_app_str decomp s1 s2 :
  match s2 with m :: _ => accent_cmd m = None | [] => True end ->
  uni2tex decomp (s1 ++ s2) = uni2tex decomp s1 ++ uni2tex decomp s2.
Proof. intro H. unfold uni2tex. rewrite (u2t_app decomp s1 s2 H). apply render_app. Qed.
Lemma u2t_injective_ceq_nobsl decomp s s' :
  no_bsl s = true -> no_bsl s' = true ->
  uni2tex decomp s = uni2tex decomp s' -> ceq decomp s s'.
Proof.
  intros B B'.
  exact (u2t_injective_ceq decomp s s' (u2t_no_plain_bsl decomp s B) (u2t_no_plain_bsl decomp s' B')).
Qed.
Lemma accent_table m cmd :
  (accent_cmd m = Some cmd <-> cmd_mark cmd = Some m) /\
  (accent_cmd m = Some cmd ->
   0x300 <= m <= 0x331 /\ 33 < cmd < 127 /\ cmd <> BSL /\ cmd <> LBR /\ cmd <> RBR).
Proof.
  split; [split; [exact (accent_cmd_mark m cmd)|exact (cmd_mark_accent cmd m)]|].
  intro H. destruct (accent_range m cmd H) as [A B]. destruct (cmd_range m cmd H) as [C [D E]].
  repeat split; try assumption; apply E.
Qed.
