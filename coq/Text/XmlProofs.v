(* The reader gets back exactly the text that was serialised: xml_read (xml_escape s) = Some s
   for every list of Unicode code points (< 0x110000).  The decimal character references are
   handled by an exhaustive kernel computation over ALL 1 114 112 code points (bound in the
   statement), lifted to an arbitrary continuation by Text/UtilsProofs.parse_dec_stop. *)
From Coq Require Import NArith List Bool Lia.
From Labella Require Import Text.Utils Text.UtilsProofs Text.Xml.
Import ListNotations.
Open Scope N_scope.

Definition MAXCP := 1114112.

Definition dec_ok (n : N) : bool :=
  match parse_dec_acc (str_of_N n ++ [SEMI]) 0 false with
  | Some (m, [s]) => (m =? n) && (s =? SEMI)
  | _ => false
  end.

Definition all_below_iter (k : N) (p : N -> bool) : bool :=
  snd (N.iter k (fun ib => (N.succ (fst ib), snd ib && p (fst ib))) (0, true)).

Lemma all_below_iter_spec p : forall k, all_below_iter k p = true -> forall n, n < k -> p n = true.
Proof.
  unfold all_below_iter.
  set (f := fun ib : N * bool => (N.succ (fst ib), snd ib && p (fst ib))).
  assert (H : forall k, fst (N.iter k f (0, true)) = k /\
                        (snd (N.iter k f (0, true)) = true -> forall n, n < k -> p n = true)).
  { induction k as [|k [IH1 IH2]] using N.peano_ind.
    - simpl. split; [reflexivity|]. intros _ n Hn. lia.
    - rewrite N.iter_succ. unfold f at 1. cbn [fst snd]. rewrite IH1. split; [reflexivity|].
      intros Hb n Hn. apply andb_true_iff in Hb as [Hb Hp].
      rewrite IH1 in Hp. destruct (N.eq_dec n k) as [->|Hne]; [exact Hp|]. apply IH2; [exact Hb|lia]. }
  intros k Hk. exact (proj2 (H k) Hk).
Qed.

Lemma dec_ok_all : all_below_iter MAXCP dec_ok = true.
Proof. vm_compute. reflexivity. Qed.

Lemma semi_not_digit : digitval SEMI = None.
Proof. reflexivity. Qed.

Lemma dec_roundtrip_semi : forall n rest, n < MAXCP ->
  parse_dec_acc (str_of_N n ++ SEMI :: rest) 0 false = Some (n, SEMI :: rest).
Proof.
  intros n rest Hn. assert (H := all_below_iter_spec dec_ok MAXCP dec_ok_all n Hn).
  unfold dec_ok in H.
  destruct (parse_dec_acc (str_of_N n ++ [SEMI]) 0 false) as [[m r]|] eqn:E; [|discriminate].
  destruct r as [|s [|? ?]]; try discriminate.
  apply andb_true_iff in H as [H1 H2]. apply N.eqb_eq in H1, H2. subst m s.
  exact (parse_dec_stop (str_of_N n) 0 false SEMI [] n semi_not_digit E rest).
Qed.

Lemma expect_app : forall p r, expect p (p ++ r) = Some r.
Proof. induction p as [|x p IH]; intro r; simpl; [reflexivity|]. rewrite N.eqb_refl. apply IH. Qed.

(* a character reference never looks like one of the three named entities *)
Lemma tok_escape_char : forall c rest, c < MAXCP -> xml_tok (xml_escape_char c ++ rest) = Some (c, rest).
Proof.
  intros c rest Hc. unfold xml_escape_char.
  destruct (c =? AMP) eqn:E1; [apply N.eqb_eq in E1; subst; reflexivity|].
  destruct (c =? LT) eqn:E2; [apply N.eqb_eq in E2; subst; reflexivity|].
  destruct (c =? GT) eqn:E3; [apply N.eqb_eq in E3; subst; reflexivity|].
  destruct (c <? 128) eqn:E4.
  - cbn [app xml_tok]. rewrite E1. reflexivity.
  - cbn [app xml_tok]. rewrite N.eqb_refl.
    (* after "&" comes "#": none of amp; lt; gt; *)
    change (expect s_amp (HASH :: (str_of_N c ++ [SEMI]) ++ rest)) with (@None (list N)).
    change (expect s_lt (HASH :: (str_of_N c ++ [SEMI]) ++ rest)) with (@None (list N)).
    change (expect s_gt (HASH :: (str_of_N c ++ [SEMI]) ++ rest)) with (@None (list N)).
    rewrite N.eqb_refl. rewrite <- app_assoc. cbn [app].
    rewrite (dec_roundtrip_semi c rest Hc). rewrite N.eqb_refl. reflexivity.
Qed.

Lemma escape_char_nonempty : forall c, (1 <= length (xml_escape_char c))%nat.
Proof.
  intro c. unfold xml_escape_char.
  destruct (c =? AMP); [simpl; lia|]. destruct (c =? LT); [simpl; lia|]. destruct (c =? GT); [simpl; lia|].
  destruct (c <? 128); simpl; lia.
Qed.

Lemma unescape_escape : forall s f, Forall (fun c => c < MAXCP) s -> (length (xml_escape s) <= f)%nat ->
  xml_unescape f (xml_escape s) = Some s.
Proof.
  induction s as [|c s IH]; intros f HF Hf.
  - simpl. destruct f; reflexivity.
  - inversion HF as [|? ? Hc HF']; subst.
    change (xml_escape (c :: s)) with (xml_escape_char c ++ xml_escape s) in *.
    rewrite app_length in Hf. pose proof (escape_char_nonempty c) as Hne.
    destruct f as [|f]; [lia|].
    destruct (xml_escape_char c ++ xml_escape s) as [|h t] eqn:El.
    { apply (f_equal (@length N)) in El. rewrite app_length in El. simpl in El. lia. }
    cbn [xml_unescape]. rewrite <- El. rewrite (tok_escape_char c (xml_escape s) Hc).
    rewrite (IH f HF') by lia. reflexivity.
Qed.

(* the label text is read back verbatim from the serialised document *)
Theorem xml_roundtrip : forall s, Forall (fun c => c < MAXCP) s -> xml_read (xml_escape s) = Some s.
Proof. intros s H. unfold xml_read. apply unescape_escape; [exact H|lia]. Qed.

(* hence distinct texts are serialised differently *)
Theorem xml_escape_injective : forall s t, Forall (fun c => c < MAXCP) s -> Forall (fun c => c < MAXCP) t ->
  xml_escape s = xml_escape t -> s = t.
Proof.
  intros s t Hs Ht E. assert (A := xml_roundtrip s Hs). rewrite E, (xml_roundtrip t Ht) in A. now injection A.
Qed.

(* ASCII text without the three markup characters is written as it is *)
Theorem xml_escape_plain : forall s,
  Forall (fun c => c < 128 /\ c <> AMP /\ c <> LT /\ c <> GT) s -> xml_escape s = s.
Proof.
  induction s as [|c s IH]; intro H; [reflexivity|]. inversion H as [|? ? (H1 & H2 & H3 & H4) H']; subst.
  change (xml_escape (c :: s)) with (xml_escape_char c ++ xml_escape s). rewrite (IH H').
  unfold xml_escape_char. apply N.eqb_neq in H2, H3, H4. rewrite H2, H3, H4.
  apply N.ltb_lt in H1. rewrite H1. reflexivity.
Qed.
