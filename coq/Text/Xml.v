(* How a label text reaches the SVG document: TimelineSVG sets  element.text = text  and
   xml.etree.ElementTree.tostring(doc) serialises with encoding "us-ascii", i.e.
     &  ->  &amp;      <  ->  &lt;      >  ->  &gt;       (ElementTree._escape_cdata)
     a code point above 127  ->  &#<decimal>;           (the xmlcharrefreplace error handler)
   and every other ASCII character unchanged.  Texts are lists of code points.
   xml_unescape is the reader (what an XML parser does with character data). Model only. *)
From Coq Require Import NArith List Bool.
From Labella Require Import Text.Utils.
Import ListNotations.
Open Scope N_scope.

Definition AMP := 38. Definition LT := 60. Definition GT := 62. Definition HASH := 35. Definition SEMI := 59.
Definition s_amp : list N := [97; 109; 112; 59].   (* "amp;" *)
Definition s_lt : list N := [108; 116; 59].        (* "lt;" *)
Definition s_gt : list N := [103; 116; 59].        (* "gt;" *)

Definition xml_escape_char (c : N) : list N :=
  if c =? AMP then AMP :: s_amp
  else if c =? LT then AMP :: s_lt
  else if c =? GT then AMP :: s_gt
  else if c <? 128 then [c]
  else AMP :: HASH :: str_of_N c ++ [SEMI].

Definition xml_escape (s : list N) : list N := flat_map xml_escape_char s.

(* one character of character data from the front of the serialised text *)
Definition xml_tok (l : list N) : option (N * list N) :=
  match l with
  | [] => None
  | c :: r =>
      if c =? AMP then
        match expect s_amp r with
        | Some r' => Some (AMP, r')
        | None =>
            match expect s_lt r with
            | Some r' => Some (LT, r')
            | None =>
                match expect s_gt r with
                | Some r' => Some (GT, r')
                | None =>
                    match r with
                    | h :: r1 =>
                        if h =? HASH then
                          match parse_dec_acc r1 0 false with
                          | Some (n, s :: r2) => if s =? SEMI then Some (n, r2) else None
                          | _ => None
                          end
                        else None
                    | [] => None
                    end
                end
            end
        end
      else Some (c, r)
  end.

Fixpoint xml_unescape (fuel : nat) (l : list N) : option (list N) :=
  match l with
  | [] => Some []
  | _ =>
      match fuel with
      | O => None
      | S f =>
          match xml_tok l with
          | Some (c, r) => match xml_unescape f r with Some s => Some (c :: s) | None => None end
          | None => None
          end
      end
  end.

(* the reader with the fuel it needs: one unit per serialised character *)
Definition xml_read (l : list N) : option (list N) := xml_unescape (length l) l.
