(* The finer count for two-day ticks (row (UDay, 2) of the method table).
   Two-day ticks are the odd days of every month; consecutive ticks are two
   days apart except across the end of a 31-day (or 29-day) month, where the
   gap is one day and the later tick is the first of a month.  So n ticks span
   at least 2 (n - 1) - g days, g = the number of firsts of a month among them,
   and g <= span / 28 days + 1.  Helper of TickCountProofs.v. *)
From Coq Require Import ZArith List Bool Lia ZifyBool Sorted.
From Labella Require Import Time.Calendar Time.CalendarProofs Time.Interval Time.IntervalSpec
  Time.IntervalProofs Time.UnitProofs Time.TickEnum Time.TickRows.
Import ListNotations.
Ltac Zify.zify_post_hook ::= Z.to_euclidean_division_equations.
Open Scope Z_scope.

Local Notation D := 86400000000.

(* ---------- one-sided chains ---------------------------------------------- *)
Lemma chain_lower : forall p l x, Sorted (fun a b => p <= b - a) (x :: l) ->
  Z.of_nat (length l) * p <= lastz x l - x.
Proof.
  intros p. induction l as [|y l IH]; intros x H; [simpl; lia|].
  apply Sorted_inv in H. destruct H as [H1 H2]. apply HdRel_inv in H2.
  specialize (IH y H1). cbn [lastz].
  replace (Z.of_nat (length (y :: l))) with (Z.of_nat (length l) + 1) by (cbn [length]; lia). lia.
Qed.

Lemma SSorted_filter : forall (f : Z -> bool) l, StronglySorted Z.lt l -> StronglySorted Z.lt (filter f l).
Proof.
  intros f. induction l as [|x l IH]; intro H; [constructor|].
  apply StronglySorted_inv in H. destruct H as [H1 H2]. cbn [filter].
  destruct (f x); [|apply IH; assumption]. constructor; [apply IH; assumption|].
  rewrite Forall_forall in *. intros y Hy. apply filter_In in Hy. apply H2. tauto.
Qed.

(* a strictly increasing list inside [lo, hi) whose elements are pairwise at
   least g apart *)
Lemma separated_count : forall g lo hi l, 0 < g -> lo <= hi -> StronglySorted Z.lt l ->
  (forall z, In z l -> lo <= z < hi) ->
  (forall z w, In z l -> In w l -> z < w -> g <= w - z) ->
  (Z.of_nat (length l) - 1) * g <= hi - lo.
Proof.
  intros g lo hi l Hg Hlh S R Sep. destruct l as [|x l]; [cbn [length]; lia|].
  assert (C : Sorted (fun a b => g <= b - a) (x :: l)).
  { apply adjacent_Sorted. intros l1 a b l2 E.
    assert (Ia : In a (x :: l)) by (rewrite E; apply in_or_app; right; left; reflexivity).
    assert (Ib : In b (x :: l)) by (rewrite E; apply in_or_app; right; right; left; reflexivity).
    apply Sep; try assumption.
    rewrite E in S. apply SSorted_app_r in S. apply StronglySorted_inv in S. destruct S as [_ F].
    inversion F; assumption. }
  pose proof (chain_lower g l x C). pose proof (lastz_In l x) as I. apply R in I.
  assert (Ix : In x (x :: l)) by (left; reflexivity). apply R in Ix.
  replace (Z.of_nat (length (x :: l)) - 1) with (Z.of_nat (length l)) by (cbn [length]; lia). lia.
Qed.

(* chains whose links are two days, or one day ending on a marked element *)
Lemma chain_marked : forall (f : Z -> bool) l x,
  Sorted (fun a b => 2 * D <= b - a \/ (D <= b - a /\ f b = true)) (x :: l) ->
  2 * D * Z.of_nat (length l) - D * Z.of_nat (length (filter f l)) <= lastz x l - x.
Proof.
  intros f. induction l as [|y l IH]; intros x H; [simpl; lia|].
  apply Sorted_inv in H. destruct H as [H1 H2]. apply HdRel_inv in H2.
  specialize (IH y H1). cbn [lastz filter].
  replace (Z.of_nat (length (y :: l))) with (Z.of_nat (length l) + 1) by (cbn [length]; lia).
  destruct H2 as [H2|[H2 Fy]].
  - destruct (f y); cbn [length]; lia.
  - rewrite Fy. cbn [length]. lia.
Qed.

(* ---------- calendar: the day of the month along consecutive days ---------- *)
Lemma day_in_month n i : first_of_month i <= n < first_of_month (i + 1) ->
  dt_d (of_us (n * D)) = n - first_of_month i + 1 /\ dt_mo (of_us (n * D)) = i mod 12 + 1.
Proof.
  intros H. destruct (midnight_fields n) as (y & m & d & E & M & Q & _ & -> & ->).
  rewrite first_of_month_succ in H. pose proof (month_len_bounds i).
  assert (M' : md_ok (i / 12) (i mod 12 + 1) (n - first_of_month i + 1)).
  { unfold md_ok. unfold month_len in H. lia. }
  assert (Q' : days_from_civil (i / 12) (i mod 12 + 1) (n - first_of_month i + 1) = n).
  { rewrite days_from_civil_day. unfold first_of_month. lia. }
  rewrite <- Q' in Q. destruct (days_from_civil_inj _ _ _ _ _ _ M M' Q) as (_ & -> & ->). auto.
Qed.

(* the day after an odd day of the month is an even day, or the first of a month *)
Lemma next_day n : dt_d (of_us ((n + 1) * D)) = dt_d (of_us (n * D)) + 1 \/
                   dt_d (of_us ((n + 1) * D)) = 1.
Proof.
  destruct (month_of_day n) as (i & B & B').
  destruct (day_in_month n i ltac:(lia)) as [E _].
  destruct (Z_lt_le_dec (n + 1) (first_of_month (i + 1))) as [Q|Q].
  - destruct (day_in_month (n + 1) i ltac:(lia)) as [E' _]. left. lia.
  - assert (n + 1 = first_of_month (i + 1)) by lia.
    pose proof (first_of_month_succ (i + 1)). pose proof (month_len_bounds (i + 1)).
    destruct (day_in_month (n + 1) (i + 1) ltac:(lia)) as [E' _]. right. lia.
Qed.

(* a midnight on the first of a month is a month boundary *)
Lemma first_is_month_boundary z : z mod D = 0 -> dt_d (of_us z) = 1 -> is_boundary UMonth z.
Proof.
  intros Hz Hd. apply Z.mod_divide in Hz; [|lia]. destruct Hz as [n ->].
  destruct (month_of_day n) as (i & B & B').
  destruct (day_in_month n i ltac:(lia)) as [E _].
  apply month_boundary_iff. exists i. lia.
Qed.

(* ---------- the count ------------------------------------------------------ *)
Definition is_first (z : Z) : bool := dt_d (of_us z) =? 1.

Theorem day2_span : forall lo hi L, enumerates (tickset UDay 2) lo hi L -> lo < hi ->
  exists g, 0 <= g /\
    2 * D * (Z.of_nat (length L) - 1) - D * g <= hi - 1 - lo /\
    (g - 1) * (28 * D) <= hi - lo.
Proof.
  intros lo hi L [S Mem] Hlh.
  destruct L as [|x l].
  { exists 0. cbn [length]. lia. }
  exists (Z.of_nat (length (filter is_first l))). split; [lia|].
  assert (C : Sorted (fun a b => 2 * D <= b - a \/ (D <= b - a /\ is_first b = true)) (x :: l)).
  { apply adjacent_Sorted. intros l1 a b l2 E.
    assert (Ia : In a (x :: l)) by (rewrite E; apply in_or_app; right; left; reflexivity).
    assert (Ib : In b (x :: l)) by (rewrite E; apply in_or_app; right; right; left; reflexivity).
    apply Mem in Ia. apply Mem in Ib. destruct Ia as [[Ba Na] _]. destruct Ib as [[Bb Nb] _].
    assert (Lab : a < b).
    { rewrite E in S. apply SSorted_app_r in S. apply StronglySorted_inv in S. destruct S as [_ F].
      inversion F; assumption. }
    unfold is_boundary in Ba, Bb. specialize (Na ltac:(lia)). specialize (Nb ltac:(lia)).
    unfold unit_number in Na, Nb.
    destruct (Z_le_gt_dec (2 * D) (b - a)) as [Q|Q]; [left; assumption|right].
    apply Z.mod_divide in Ba; [|lia]. apply Z.mod_divide in Bb; [|lia].
    destruct Ba as [p ->]. destruct Bb as [q ->].
    assert (q = p + 1) by lia. subst q. split; [lia|].
    unfold is_first. destruct (next_day p) as [N|N]; [exfalso; lia|]. rewrite N. reflexivity. }
  pose proof (chain_marked is_first l x C) as CM.
  pose proof (lastz_In l x) as Il. apply Mem in Il.
  assert (Ix : In x (x :: l)) by (left; reflexivity). apply Mem in Ix.
  split.
  - replace (Z.of_nat (length (x :: l)) - 1) with (Z.of_nat (length l)) by (cbn [length]; lia). lia.
  - (* the firsts of a month among the ticks are at least 28 days apart *)
    apply StronglySorted_inv in S. destruct S as [Sl _].
    apply (separated_count (28 * D) lo hi (filter is_first l)); [lia|lia|apply SSorted_filter; assumption| |].
    + intros z Hz. apply filter_In in Hz. destruct Hz as [Hz _].
      assert (I : In z (x :: l)) by (right; assumption). apply Mem in I. lia.
    + intros z w Hz Hw Lzw. apply filter_In in Hz, Hw. destruct Hz as [Hz Fz]. destruct Hw as [Hw Fw].
      assert (Iz : In z (x :: l)) by (right; assumption). assert (Iw : In w (x :: l)) by (right; assumption).
      apply Mem in Iz, Iw. destruct Iz as [[Bz _] _]. destruct Iw as [[Bw _] _].
      unfold is_first in Fz, Fw. unfold is_boundary in Bz, Bw.
      destruct month1_row as (_ & _ & Sep & _).
      apply Sep; [split; [apply first_is_month_boundary; [assumption|lia]|lia]
                 |split; [apply first_is_month_boundary; [assumption|lia]|lia]|assumption].
Qed.
