(* Property C14, time part: tnice_lt_two_ticks.  TimeScale.nice moves each end
   of the domain outward by less than two tick steps of the ORIGINAL domain's
   ticks.  Precisely: for the row of the method table that tickMethod picks
   there is a g > 0 such that every gap of ts_ticks d0 d1 m lies in [g, 2 g]
   and each end moves by less than 2 g (indeed by less than the row's density
   gmax <= 2 g): nice_floor returns the greatest point of the row's tick set
   below the end, nice_ceil the least one above it.
   Built on Time/TickEnum.v, Time/TickRows.v and Time/TickCountProofs.v. *)
From Coq Require Import ZArith QArith Qround Lia Lqa ZifyBool List Bool Sorted.
From Labella Require Import Time.Calendar Time.CalendarProofs Time.Interval Time.IntervalSpec
  Time.IntervalProofs Time.UnitProofs Time.TimeScale Time.TimeScaleProofs Time.TimeTicks
  Time.TimeTicksProofs Time.TimeNice Time.TimeNiceProofs Time.TickEnum Time.TickRows
  Time.TickCountProofs.
Import ListNotations.
Ltac Zify.zify_post_hook ::= Z.to_euclidean_division_equations.
Open Scope Z_scope.

(* ---------- calendar units: floor/ceil to the row's tick set ---------------- *)
Section UnitBound.
  Variable u : unit_id.
  Variable sk : Q.
  Local Notation iv := (interval_of u).
  Local Notation P := (is_boundary u).
  Local Notation meth := (TUnit u sk).
  Local Notation st := (skip_of sk).
  Local Notation T := (tickset u st).

  Lemma tick_of_valid x : valid x -> (T (to_us x) <-> P (to_us x) /\ keep iv x st = true).
  Proof.
    intros Vx. unfold tickset. rewrite (of_us_to_us x (valid_wf x Vx)).
    rewrite (keep_iff iv x st), (number_is_unit_number u x Vx). tauto.
  Qed.

  Lemma floor_loop_max fuel : forall nd r, valid nd -> P (to_us nd) ->
    nice_floor_loop fuel meth nd = Ok r ->
    forall z, T z -> z <= to_us nd -> z <= to_us r.
  Proof.
    induction fuel as [|fuel IH]; intros nd r Vn Pn H z Tz Hz; cbn [nice_floor_loop] in H;
      apply rbind_ok in H; destruct H as (v & Ev & H);
      apply (skipped_unit u sk nd v Vn Pn) in Ev; destruct (keep iv nd st) eqn:K; subst v; cbn [negb] in H.
    - injection H as <-. assumption.
    - discriminate.
    - injection H as <-. assumption.
    - apply rbind_ok in H. destruct H as (d & E1 & H).
      apply rbind_ok in H. destruct H as (nd' & E2 & H).
      apply of_us_chk_ok in E1. destruct E1 as [Vd Ed]. cbn [ni_floor] in E2.
      destruct (g_floor _ _ (all_units_ok u) d nd' Vd E2) as (Vn' & Hle & Pn' & Gr).
      apply (IH nd' r Vn' Pn' H z Tz).
      (* z is a tick point, nd is not: z <= nd - 1 ms, hence below the previous boundary *)
      assert (z <> to_us nd).
      { intro E. subst z. apply (tick_of_valid nd Vn) in Tz. destruct Tz as [_ K']. congruence. }
      destruct Tz as [Pz _]. pose proof (boundary_ms u _ Pz). pose proof (boundary_ms u _ Pn).
      apply Gr; [assumption|lia].
  Qed.

  Lemma ceil_loop_min fuel : forall nd r, valid nd -> P (to_us nd) ->
    nice_ceil_loop fuel meth nd = Ok r ->
    forall z, T z -> to_us nd <= z -> to_us r <= z.
  Proof.
    induction fuel as [|fuel IH]; intros nd r Vn Pn H z Tz Hz; cbn [nice_ceil_loop] in H;
      apply rbind_ok in H; destruct H as (v & Ev & H);
      apply (skipped_unit u sk nd v Vn Pn) in Ev; destruct (keep iv nd st) eqn:K; subst v; cbn [negb] in H.
    - injection H as <-. assumption.
    - discriminate.
    - injection H as <-. assumption.
    - apply rbind_ok in H. destruct H as (d & E1 & H).
      apply rbind_ok in H. destruct H as (nd' & E2 & H).
      apply of_us_chk_ok in E1. destruct E1 as [Vd Ed]. cbn [ni_ceil] in E2.
      pose proof (boundary_ms u _ Pn) as Mn.
      assert (Md : ms_resolution d) by (unfold ms_resolution; rewrite Ed; lia).
      destruct (g_ceil _ _ (all_units_ok u) d nd' Vd Md E2) as (Vn' & Hle & Pn' & Gr).
      apply (IH nd' r Vn' Pn' H z Tz).
      assert (z <> to_us nd).
      { intro E. subst z. apply (tick_of_valid nd Vn) in Tz. destruct Tz as [_ K']. congruence. }
      destruct Tz as [Pz _]. pose proof (boundary_ms u _ Pz).
      apply Gr; [assumption|lia].
  Qed.

  Lemma small_skip_ticks z : Qle_bool sk 1 = true -> P z -> T z.
  Proof. intros C Pz. split; [assumption|]. intro G. pose proof (skip_of_le sk C). lia. Qed.

  (* nice_floor: no point of the tick set lies in (result, t] *)
  Theorem nice_floor_max t r : valid t -> nice_floor meth t = Ok r ->
    forall z, T z -> z <= to_us t -> z <= to_us r.
  Proof.
    intros Vt H z Tz Hz. unfold nice_floor in H. cbn [ni_skip ni_floor] in H.
    destruct (Qle_bool sk 1) eqn:C.
    - destruct (g_floor _ _ (all_units_ok u) t r Vt H) as (_ & _ & _ & Gr).
      apply Gr; [destruct Tz; assumption|assumption].
    - apply rbind_ok in H. destruct H as (f & E1 & H).
      destruct (g_floor _ _ (all_units_ok u) t f Vt E1) as (Vf & Hle & Pf & Gr).
      apply (floor_loop_max _ f r Vf Pf H z Tz). apply Gr; [destruct Tz; assumption|assumption].
  Qed.

  Theorem nice_ceil_min t r : valid t -> ms_resolution t -> nice_ceil meth t = Ok r ->
    forall z, T z -> to_us t <= z -> to_us r <= z.
  Proof.
    intros Vt Mt H z Tz Hz. unfold nice_ceil in H. cbn [ni_skip ni_ceil] in H.
    destruct (Qle_bool sk 1) eqn:C.
    - destruct (g_ceil _ _ (all_units_ok u) t r Vt Mt H) as (_ & _ & _ & Gr).
      apply Gr; [destruct Tz; assumption|assumption].
    - apply rbind_ok in H. destruct H as (f & E1 & H).
      destruct (g_ceil _ _ (all_units_ok u) t f Vt Mt E1) as (Vf & Hle & Pf & Gr).
      apply (ceil_loop_min _ f r Vf Pf H z Tz). apply Gr; [destruct Tz; assumption|assumption].
  Qed.
End UnitBound.

(* ---------- milliseconds ----------------------------------------------------- *)
Section MsBound.
  Variable stq : Q.
  Local Notation meth := (TMillis stq).
  Local Notation s := (ms_step stq).
  Local Notation T := (fun z => z mod (1000 * s) = 0).

  Lemma s_pos : 0 < s.
  Proof. unfold ms_step. lia. Qed.

  Lemma ms_floor_loop_max fuel : forall nd r, ms_resolution nd ->
    nice_floor_loop fuel meth nd = Ok r ->
    forall z, T z -> z <= to_us nd -> z <= to_us r.
  Proof.
    pose proof s_pos as Hs.
    induction fuel as [|fuel IH]; intros nd r Mn H z Tz Hz; cbn [nice_floor_loop] in H;
      apply rbind_ok in H; destruct H as (v & Ev & H);
      apply (skipped_ms stq nd v Mn) in Ev; destruct v.
    - discriminate.
    - injection H as <-. assumption.
    - apply rbind_ok in H. destruct H as (d & E1 & H). cbn [ni_floor rbind] in H.
      apply of_us_chk_ok in E1. destruct E1 as [Vd Ed].
      assert (Md : ms_resolution d) by (unfold ms_resolution in *; rewrite Ed; lia).
      apply (IH d r Md H z Tz). rewrite Ed.
      assert (N : (to_us nd / 1000) mod s <> 0) by (apply Ev; reflexivity).
      unfold ms_resolution in Mn. set (sv := s) in *. clearbody sv.
      assert (z <> to_us nd).
      { intro E. subst z. apply N. apply Z.mod_divide in Tz; [|lia]. destruct Tz as [q Eq].
        rewrite Eq. replace (q * (1000 * sv) / 1000) with (q * sv) by nia. apply Z.mod_mul. lia. }
      apply Z.mod_divide in Tz; [|lia]. destruct Tz as [q ->].
      apply Z.mod_divide in Mn; [|lia]. destruct Mn as [p Ep]. rewrite Ep in *. nia.
    - injection H as <-. assumption.
  Qed.

  Lemma ms_ceil_loop_min fuel : forall nd r, ms_resolution nd ->
    nice_ceil_loop fuel meth nd = Ok r ->
    forall z, T z -> to_us nd <= z -> to_us r <= z.
  Proof.
    pose proof s_pos as Hs.
    induction fuel as [|fuel IH]; intros nd r Mn H z Tz Hz; cbn [nice_ceil_loop] in H;
      apply rbind_ok in H; destruct H as (v & Ev & H);
      apply (skipped_ms stq nd v Mn) in Ev; destruct v.
    - discriminate.
    - injection H as <-. assumption.
    - apply rbind_ok in H. destruct H as (d & E1 & H). cbn [ni_ceil rbind] in H.
      apply of_us_chk_ok in E1. destruct E1 as [Vd Ed].
      assert (Md : ms_resolution d) by (unfold ms_resolution in *; rewrite Ed; lia).
      apply (IH d r Md H z Tz). rewrite Ed.
      assert (N : (to_us nd / 1000) mod s <> 0) by (apply Ev; reflexivity).
      unfold ms_resolution in Mn. set (sv := s) in *. clearbody sv.
      assert (z <> to_us nd).
      { intro E. subst z. apply N. apply Z.mod_divide in Tz; [|lia]. destruct Tz as [q Eq].
        rewrite Eq. replace (q * (1000 * sv) / 1000) with (q * sv) by nia. apply Z.mod_mul. lia. }
      apply Z.mod_divide in Tz; [|lia]. destruct Tz as [q ->].
      apply Z.mod_divide in Mn; [|lia]. destruct Mn as [p Ep]. rewrite Ep in *. nia.
    - injection H as <-. assumption.
  Qed.

  Theorem ms_nice_floor_max t r : ms_resolution t -> nice_floor meth t = Ok r ->
    forall z, T z -> z <= to_us t -> z <= to_us r.
  Proof.
    intros Mt H z Tz Hz. unfold nice_floor in H. cbn [ni_skip ni_floor rbind] in H.
    destruct (Qle_bool stq 1) eqn:C.
    - injection H as <-. assumption.
    - apply (ms_floor_loop_max _ t r Mt H z Tz Hz).
  Qed.

  Theorem ms_nice_ceil_min t r : ms_resolution t -> nice_ceil meth t = Ok r ->
    forall z, T z -> to_us t <= z -> to_us r <= z.
  Proof.
    intros Mt H z Tz Hz. unfold nice_ceil in H. cbn [ni_skip ni_ceil rbind] in H.
    destruct (Qle_bool stq 1) eqn:C.
    - injection H as <-. assumption.
    - apply (ms_ceil_loop_min _ t r Mt H z Tz Hz).
  Qed.
End MsBound.

(* ---------- the tick set of a method (TickCountProofs.meth_ticks) -------------- *)
Lemma meth_floor_max meth t r : valid t -> ms_resolution t -> nice_floor meth t = Ok r ->
  forall z, meth_ticks meth z -> z <= to_us t -> z <= to_us r.
Proof.
  intros Vt Mt H. destruct meth as [stq|u sk]; cbn [meth_ticks].
  - exact (ms_nice_floor_max stq t r Mt H).
  - exact (nice_floor_max u sk t r Vt H).
Qed.

Lemma meth_ceil_min meth t r : valid t -> ms_resolution t -> nice_ceil meth t = Ok r ->
  forall z, meth_ticks meth z -> to_us t <= z -> to_us r <= z.
Proof.
  intros Vt Mt H. destruct meth as [stq|u sk]; cbn [meth_ticks].
  - exact (ms_nice_ceil_min stq t r Mt H).
  - exact (nice_ceil_min u sk t r Vt Mt H).
Qed.

(* an end moves by less than the density of the row *)
Lemma floor_move (T : Z -> Prop) gmin gmax t r : row_ok T gmin gmax ->
  (forall z, T z -> z <= t -> z <= r) -> t - r < gmax.
Proof. intros (_ & _ & _ & Dn) Mx. destruct (Dn t) as (z & Tz & R). specialize (Mx z Tz ltac:(lia)). lia. Qed.

Lemma ceil_move (T : Z -> Prop) gmin gmax t r : row_ok T gmin gmax ->
  (forall z, T z -> t <= z -> r <= z) -> r - t < gmax.
Proof.
  intros (_ & _ & _ & Dn) Mn. destruct (Dn (t + gmax - 1)) as (z & Tz & R).
  specialize (Mn z Tz ltac:(lia)). lia.
Qed.

(* ---------- the niced ends are points of the row's tick set -------------------- *)
Lemma aligned_ticks meth x : valid x -> aligned meth x -> meth_ticks meth (to_us x).
Proof.
  intros Vx A. destruct meth as [stq|u sk]; cbn [meth_ticks aligned] in *.
  - destruct A as [M Dv]. unfold ms_resolution in M.
    destruct (Z_le_gt_dec (qtrunc stq) 1) as [Q|Q].
    + replace (Z.max 1 (qtrunc stq)) with 1 by lia. lia.
    + replace (Z.max 1 (qtrunc stq)) with (qtrunc stq) by lia. specialize (Dv ltac:(lia)).
      set (s := qtrunc stq) in *. clearbody s.
      apply Z.mod_divide in M; [|lia]. destruct M as [q Eq]. rewrite Eq in *.
      rewrite Z.div_mul in Dv by lia. apply Z.mod_divide in Dv; [|lia]. destruct Dv as [p ->].
      replace (p * s * 1000) with (p * (1000 * s)) by ring. apply Z.mod_mul. lia.
  - destruct A as [B N]. split; [assumption|]. rewrite (of_us_to_us x (valid_wf x Vx)). assumption.
Qed.

Lemma aligned_ms meth x : aligned meth x -> ms_resolution x.
Proof.
  destruct meth as [stq|u sk]; cbn [aligned]; intros [A _]; [assumption|].
  unfold ms_resolution. apply (boundary_ms u). assumption.
Qed.

Lemma two_members (L : list Z) a b : In a L -> In b L -> a <> b -> (2 <= length L)%nat.
Proof.
  destruct L as [|x [|y L]]; cbn [In length]; intros Ia Ib N; try contradiction; [|lia].
  destruct Ia as [<-|[]]. destruct Ib as [<-|[]]. congruence.
Qed.

(* ---------- the two halves, for an abstract row --------------------------------- *)
Lemma nice_pair_moves meth gmin gmax lo hi a b :
  row_ok (meth_ticks meth) gmin gmax ->
  valid lo -> ms_resolution lo -> valid hi -> ms_resolution hi ->
  nice_floor meth lo = Ok a -> nice_ceil meth hi = Ok b ->
  to_us lo - to_us a < gmax /\ to_us b - to_us hi < gmax.
Proof.
  intros RO Vl Ml Vh Mh E1 E2.
  pose proof (floor_move _ _ _ _ _ RO (meth_floor_max meth lo a Vl Ml E1)).
  pose proof (ceil_move _ _ _ _ _ RO (meth_ceil_min meth hi b Vh Mh E2)). lia.
Qed.

Lemma niced_ticks meth gmin gmax nlo nhi t1 l' :
  row_ok (meth_ticks meth) gmin gmax ->
  valid nlo -> valid nhi -> aligned meth nlo -> aligned meth nhi -> to_us nlo <= to_us nhi ->
  valid t1 -> to_us t1 = to_us nhi + 1000 -> ni_range meth nlo t1 = Ok l' ->
  In (to_us nlo) (map to_us l') /\ In (to_us nhi) (map to_us l') /\
  Sorted (fun x y => gmin <= to_us y - to_us x <= gmax) l' /\
  (to_us nlo < to_us nhi -> (2 <= length l')%nat).
Proof.
  intros (Pg & _ & Sp & Dn) Vlo Vhi Alo Ahi Ord Vt1 Et1 R.
  pose proof (aligned_ms _ _ Alo) as Mlo. pose proof (aligned_ms _ _ Ahi) as Mhi.
  assert (Mt1 : ms_resolution t1) by (unfold ms_resolution in *; rewrite Et1; lia).
  assert (EN : enumerates (meth_ticks meth) (to_us nlo) (to_us t1) (map to_us l')).
  { destruct meth as [stq|u sk].
    - exact (ms_range_enumerates _ _ _ _ Mlo Mt1 R).
    - exact (range_enumerates _ _ _ _ _ Vlo Vt1 Mlo R). }
  assert (Ilo : In (to_us nlo) (map to_us l')).
  { apply (proj2 EN). split; [apply aligned_ticks; assumption|lia]. }
  assert (Ihi : In (to_us nhi) (map to_us l')).
  { apply (proj2 EN). split; [apply aligned_ticks; assumption|lia]. }
  split; [assumption|]. split; [assumption|]. split.
  - apply (Sorted_map_to_us (fun a b => gmin <= b - a <= gmax)).
    exact (enum_gaps _ _ _ Sp Dn _ _ _ EN).
  - intro Lt. rewrite <- (map_length to_us). apply (two_members _ _ _ Ilo Ihi). lia.
Qed.

(* the niced ends in increasing order *)
Definition nice_lo (d0 d1 n0 n1 : dt) : dt := if to_us d1 <? to_us d0 then n1 else n0.
Definition nice_hi (d0 d1 n0 n1 : dt) : dt := if to_us d1 <? to_us d0 then n0 else n1.

(* ---------- tnice_row_bounds --------------------------------------------------- *)
(* With (gmin, gmax) := meth_bounds meth, the bounds of the row tickMethod picks
   for the ORIGINAL domain (TickCountProofs.meth_bounds, a function of the method;
   no existential):
   - 0 < gmin, gmax <= 2 gmin, every gap of the original domain's ticks in [gmin, gmax];
   - each end moves outward by less than gmax;
   - the ticks of the NICED domain under the same method (ni_range meth from the
     lower new end to the upper new end + 1 ms, as TimeScale.ticks does) contain both
     new ends - so there are at least two of them unless the niced domain is a
     point - and their gaps lie in [gmin, gmax] too.
   Hence each end moves by less than 2 * (any gap of the niced domain's ticks),
   also when the original domain has fewer than two ticks. *)
Theorem tnice_row_bounds d0 d1 m n0 n1 meth :
  valid d0 -> valid d1 -> ms_resolution d0 -> ms_resolution d1 ->
  ts_nice d0 d1 m = Ok (n0, n1) ->
  tick_method_of (to_ms (dom_lo d0 d1)) (to_ms (dom_hi d0 d1)) m = Ok meth ->
  0 < fst (meth_bounds meth) /\ snd (meth_bounds meth) <= 2 * fst (meth_bounds meth) /\
  (forall l, ts_ticks d0 d1 m = Ok l ->
     Sorted (fun x y => fst (meth_bounds meth) <= to_us y - to_us x <= snd (meth_bounds meth)) l) /\
  (if to_us d1 <? to_us d0
   then to_us d1 - to_us n1 < snd (meth_bounds meth) /\ to_us n0 - to_us d0 < snd (meth_bounds meth)
   else to_us d0 - to_us n0 < snd (meth_bounds meth) /\ to_us n1 - to_us d1 < snd (meth_bounds meth)) /\
  (forall t1 l', valid t1 -> to_us t1 = to_us (nice_hi d0 d1 n0 n1) + 1000 ->
     ni_range meth (nice_lo d0 d1 n0 n1) t1 = Ok l' ->
     In (to_us (nice_lo d0 d1 n0 n1)) (map to_us l') /\ In (to_us (nice_hi d0 d1 n0 n1)) (map to_us l') /\
     Sorted (fun x y => fst (meth_bounds meth) <= to_us y - to_us x <= snd (meth_bounds meth)) l' /\
     (to_us (nice_lo d0 d1 n0 n1) < to_us (nice_hi d0 d1 n0 n1) -> (2 <= length l')%nat)).
Proof.
  intros V0 V1 M0 M1 H EM.
  destruct (meth_row_bounds _ _ _ _ EM) as [RO F].
  destruct (ts_nice_spec d0 d1 m n0 n1 V0 V1 M0 M1 H) as (meth' & EM' & Vn0 & Vn1 & A0 & A1 & Out).
  rewrite EM in EM'. injection EM' as <-.
  split; [exact (proj1 RO)|]. split; [exact F|]. split; [|split].
  - intros l Hl. exact (proj2 (ticks_row d0 d1 m l meth V0 V1 M0 M1 Hl EM)).
  - unfold ts_nice in H. rewrite EM in H. unfold dt_ltb in H. destruct (to_us d1 <? to_us d0).
    + apply rbind_ok in H. destruct H as (a & E1 & H).
      apply rbind_ok in H. destruct H as (b & E2 & H). injection H as <- <-.
      exact (nice_pair_moves meth _ _ d1 d0 a b RO V1 M1 V0 M0 E1 E2).
    + apply rbind_ok in H. destruct H as (a & E1 & H).
      apply rbind_ok in H. destruct H as (b & E2 & H). injection H as <- <-.
      exact (nice_pair_moves meth _ _ d0 d1 a b RO V0 M0 V1 M1 E1 E2).
  - intros t1 l' Vt1 Et1 R. unfold nice_lo, nice_hi in *.
    destruct (to_us d1 <? to_us d0) eqn:C.
    + apply (niced_ticks meth _ _ n1 n0 t1 l' RO); try assumption. lia.
    + apply (niced_ticks meth _ _ n0 n1 t1 l' RO); try assumption. apply Z.ltb_ge in C. lia.
Qed.

(* ---------- tnice_lt_two_ticks (corollary) -------------------------------------- *)
(* There is a g > 0 (the separation of the row) such that all gaps of the original
   domain's ticks lie in [g, 2 g] and nice() moves each end outward by less than 2 g.
   NOTE: when the original domain has fewer than two ticks the gap clause says
   nothing; tnice_row_bounds above is the statement that does not depend on it. *)
Theorem tnice_lt_two_ticks d0 d1 m n0 n1 :
  valid d0 -> valid d1 -> ms_resolution d0 -> ms_resolution d1 ->
  ts_nice d0 d1 m = Ok (n0, n1) ->
  exists g, 0 < g /\
    (forall l, ts_ticks d0 d1 m = Ok l ->
       Sorted (fun x y => g <= to_us y - to_us x <= 2 * g) l) /\
    (if to_us d1 <? to_us d0
     then to_us d1 - to_us n1 < 2 * g /\ to_us n0 - to_us d0 < 2 * g
     else to_us d0 - to_us n0 < 2 * g /\ to_us n1 - to_us d1 < 2 * g).
Proof.
  intros V0 V1 M0 M1 H.
  destruct (ts_nice_spec d0 d1 m n0 n1 V0 V1 M0 M1 H) as (meth & EM & _).
  destruct (tnice_row_bounds d0 d1 m n0 n1 meth V0 V1 M0 M1 H EM) as (Pg & F & G & Mv & _).
  exists (fst (meth_bounds meth)). split; [assumption|]. split.
  - intros l Hl. specialize (G l Hl).
    eapply Sorted_ind with (P := fun l => Sorted (fun x y => fst (meth_bounds meth) <= to_us y - to_us x
                                                          <= 2 * fst (meth_bounds meth)) l) in G;
      [exact G|constructor|].
    intros a l0 _ IH HR. constructor; [exact IH|]. destruct HR; constructor. lia.
  - destruct (to_us d1 <? to_us d0); lia.
Qed.
