(* Generic theory of d3_time_interval (Time/Interval.v): if a unit's `local`
   returns the enumerated boundary B k with B k <= t < B (k+1), and its `step`
   moves B j to B (j+k), then floor/ceil/round/offset/range meet their
   specifications (Time/IntervalSpec.v).  The seven units are instantiated in
   Time/UnitProofs.v. *)
From Coq Require Import ZArith List Bool Lia ZifyBool ZifyN ZifyNat Sorted.
From Labella Require Import Time.Calendar Time.CalendarProofs Time.Interval Time.IntervalSpec.
Import ListNotations.
Ltac Zify.zify_post_hook ::= Z.to_euclidean_division_equations.
Open Scope Z_scope.

Definition YEAR_MAX_US : Z := 366 * 86400000000.
Definition WEEK_US : Z := 7 * 86400000000.

(* what has to be shown of a unit *)
Record unit_ok (iv : interval) (P : Z -> Prop) : Type := mk_unit_ok {
  uo_B : Z -> Z;                                   (* the k-th boundary, k in Z *)
  uo_minlen : 1000 <= iv_minlen iv;
  uo_gap : forall k, uo_B k + iv_minlen iv <= uo_B (k + 1);
  uo_gap_max : forall k, uo_B (k + 1) <= uo_B k + YEAR_MAX_US;
  uo_ms : forall k, uo_B k mod 1000 = 0;
  uo_P : forall x, P x <-> exists k, x = uo_B k;
  uo_local : forall t r, valid t -> iv_local iv t = Ok r ->
     valid r /\ exists k, to_us r = uo_B k /\ uo_B k <= to_us t < uo_B (k + 1);
  uo_local_nofuel : forall t, valid t -> iv_local iv t <> NoFuel;
  uo_local_total : forall t, valid t -> MIN_US + WEEK_US <= to_us t ->
     exists r, iv_local iv t = Ok r;
  uo_step : forall t j k r, valid t -> to_us t = uo_B j -> 0 <= k ->
     iv_step iv t k = Ok r -> valid r /\ to_us r = uo_B (j + k);
  uo_step_nofuel : forall t k, valid t -> iv_step iv t k <> NoFuel;
  uo_step_total : forall t j k, valid t -> to_us t = uo_B j -> 0 <= k ->
     uo_B (j + k) <= MAX_US -> exists r, iv_step iv t k = Ok r }.

Lemma rbind_ok {A B} (r : res A) (f : A -> res B) b :
  rbind r f = Ok b -> exists a, r = Ok a /\ f a = Ok b.
Proof. destruct r as [a| |]; cbn; intros H; [exists a; auto|discriminate|discriminate]. Qed.

Lemma rbind_nofuel {A B} (r : res A) (f : A -> res B) :
  rbind r f = NoFuel -> r = NoFuel \/ exists a, r = Ok a /\ f a = NoFuel.
Proof. destruct r as [a| |]; cbn; intros H; [right; exists a; auto|discriminate|left; reflexivity]. Qed.

Section Generic.
  Variable iv : interval.
  Variable P : Z -> Prop.
  Variable U : unit_ok iv P.
  Local Notation B := (uo_B iv P U).
  Local Notation L := (iv_minlen iv).

  Lemma B_grow_nat j (n : nat) : B j + L * Z.of_nat n <= B (j + Z.of_nat n).
  Proof.
    induction n as [|n IH].
    - replace (j + Z.of_nat 0) with j by lia. lia.
    - replace (j + Z.of_nat (S n)) with (j + Z.of_nat n + 1) by lia.
      pose proof (uo_gap iv P U (j + Z.of_nat n)) as G.
      replace (L * Z.of_nat (S n)) with (L * Z.of_nat n + L) by lia. lia.
  Qed.

  Lemma B_grow j k : j <= k -> B j + L * (k - j) <= B k.
  Proof.
    intros H. pose proof (B_grow_nat j (Z.to_nat (k - j))) as G.
    replace (Z.of_nat (Z.to_nat (k - j))) with (k - j) in G by lia.
    replace (j + (k - j)) with k in G by lia. exact G.
  Qed.

  Lemma L_pos : 1000 <= L.
  Proof. exact (uo_minlen iv P U). Qed.

  Lemma B_lt j k : j < k -> B j < B k.
  Proof.
    intros H. pose proof (B_grow j k ltac:(lia)). pose proof L_pos.
    assert (L * 1 <= L * (k - j)) by (apply Z.mul_le_mono_nonneg_l; lia). lia.
  Qed.

  Lemma B_le j k : j <= k -> B j <= B k.
  Proof.
    intros H. destruct (Z.eq_dec j k) as [->|]; [lia|]. pose proof (B_lt j k). lia.
  Qed.

  Lemma B_lt_inv j k : B j < B k -> j < k.
  Proof.
    intros H. destruct (Z_lt_le_dec j k) as [|G]; [assumption|].
    pose proof (B_le k j G). lia.
  Qed.

  Lemma B_inj j k : B j = B k -> j = k.
  Proof.
    intros H. destruct (Z.lt_trichotomy j k) as [G|[G|G]]; [|exact G|];
      apply B_lt in G; lia.
  Qed.

  Lemma P_B k : P (B k).
  Proof. apply (uo_P iv P U). exists k. reflexivity. Qed.

  Lemma P_inv x : P x -> exists k, x = B k.
  Proof. intros H. apply (uo_P iv P U) in H. exact H. Qed.

  (* ---------- floor ---------- *)
  Theorem g_floor t r : valid t -> iv_floor iv t = Ok r ->
    valid r /\ to_us r <= to_us t /\ P (to_us r) /\
    (forall b, P b -> b <= to_us t -> b <= to_us r).
  Proof.
    intros Ht H. unfold iv_floor in H.
    destruct (uo_local iv P U t r Ht H) as [Hv (k & Ek & Hlo & Hhi)].
    split; [exact Hv|]. split; [lia|]. split; [rewrite Ek; apply P_B|].
    intros b Hb Hle. apply P_inv in Hb. destruct Hb as [j ->].
    assert (j < k + 1) by (apply B_lt_inv; lia).
    rewrite Ek. apply B_le. lia.
  Qed.

  Theorem g_floor_total t : valid t -> MIN_US + WEEK_US <= to_us t ->
    exists r, iv_floor iv t = Ok r.
  Proof. exact (uo_local_total iv P U t). Qed.

  (* ---------- ceil ---------- *)
  Lemma g_ceil_idx t r : valid t -> iv_ceil iv t = Ok r ->
    valid r /\ exists k, to_us r = B (k + 1) /\ B k <= to_us t - 1000 < B (k + 1).
  Proof.
    intros Ht H. unfold iv_ceil in H.
    apply rbind_ok in H. destruct H as (t' & E1 & H).
    apply rbind_ok in H. destruct H as (f & E2 & E3).
    apply of_us_chk_ok in E1. destruct E1 as [Hv' Et'].
    destruct (uo_local iv P U t' f Hv' E2) as [Hvf (k & Ek & Hlo & Hhi)].
    destruct (uo_step iv P U f k 1 r Hvf Ek ltac:(lia) E3) as [Hvr Er].
    split; [exact Hvr|]. exists k. rewrite <- Et'. auto.
  Qed.

  Theorem g_ceil t r : valid t -> ms_resolution t -> iv_ceil iv t = Ok r ->
    valid r /\ to_us t <= to_us r /\ P (to_us r) /\
    (forall b, P b -> to_us t <= b -> to_us r <= b).
  Proof.
    intros Ht Hms H. destruct (g_ceil_idx t r Ht H) as [Hv (k & Er & Hlo & Hhi)].
    unfold ms_resolution in Hms.
    pose proof (uo_ms iv P U (k + 1)) as M.
    split; [exact Hv|]. split; [rewrite Er; lia|]. split; [rewrite Er; apply P_B|].
    intros b Hb Hle. apply P_inv in Hb. destruct Hb as [j ->].
    assert (k < j) by (apply B_lt_inv; lia).
    rewrite Er. apply B_le. lia.
  Qed.

  (* ---------- round ---------- *)
  Theorem g_round t r : valid t -> iv_round iv t = Ok r ->
    valid r /\ P (to_us r) /\
    (forall b, P b -> Z.abs (to_us r - to_us t) <= Z.abs (b - to_us t) /\
                      (Z.abs (b - to_us t) = Z.abs (to_us r - to_us t) -> b <= to_us r)).
  Proof.
    intros Ht H. unfold iv_round in H.
    apply rbind_ok in H. destruct H as (d0 & E0 & H).
    apply rbind_ok in H. destruct H as (d1 & E1 & H).
    destruct (uo_local iv P U t d0 Ht E0) as [Hv0 (k & Ek & Hlo & Hhi)].
    destruct (uo_step iv P U d0 k 1 d1 Hv0 Ek ltac:(lia) E1) as [Hv1 Ed1].
   
    assert (Hcases : forall b, P b -> b <= B k \/ B (k + 1) <= b).
    { intros b Hb. apply P_inv in Hb. destruct Hb as [j ->].
      destruct (Z_le_gt_dec j k) as [G|G]; [left; apply B_le; lia|right; apply B_le; lia]. }
    destruct (to_us t - to_us d0 <? to_us d1 - to_us t) eqn:C; injection H as <-.
    - split; [exact Hv0|]. split; [rewrite Ek; apply P_B|].
      intros b Hb. destruct (Hcases b Hb); lia.
    - split; [exact Hv1|]. split; [rewrite Ed1; apply P_B|].
      intros b Hb. destruct (Hcases b Hb); lia.
  Qed.

  (* ---------- offset ---------- *)
  Lemma next_boundary_B j : next_boundary P (B j) (B (j + 1)).
  Proof.
    split; [apply P_B|]. split; [apply B_lt; lia|].
    intros x Hx Hlt. apply P_inv in Hx. destruct Hx as [i ->].
    apply B_lt_inv in Hlt. apply B_le. lia.
  Qed.

  Lemma kth_following_B j (n : nat) : kth_following P (B j) n (B (j + Z.of_nat n)).
  Proof.
    induction n as [|n IH].
    - replace (j + Z.of_nat 0) with j by lia. constructor.
    - replace (j + Z.of_nat (S n)) with (j + Z.of_nat n + 1) by lia.
      econstructor; [exact IH|apply next_boundary_B].
  Qed.

  Theorem g_offset b k r : valid b -> P (to_us b) -> 0 <= k -> iv_offset iv b k = Ok r ->
    valid r /\ kth_following P (to_us b) (Z.to_nat k) (to_us r).
  Proof.
    intros Hb HP Hk H. unfold iv_offset in H. apply P_inv in HP. destruct HP as [j Ej].
    destruct (uo_step iv P U b j k r Hb Ej Hk H) as [Hv Er].
    split; [exact Hv|]. rewrite Ej, Er.
    replace (j + k) with (j + Z.of_nat (Z.to_nat k)) by lia. apply kth_following_B.
  Qed.

  (* the k-th following boundary is unique, so the specification pins the result *)
  Lemma next_boundary_unique b r r' : next_boundary P b r -> next_boundary P b r' -> r = r'.
  Proof.
    intros (P1 & L1 & M1) (P2 & L2 & M2).
    pose proof (M1 r' P2 L2). pose proof (M2 r P1 L1). lia.
  Qed.

  Lemma kth_following_unique b n : forall r r',
    kth_following P b n r -> kth_following P b n r' -> r = r'.
  Proof.
    induction n as [|n IH]; intros r r' H1 H2; inversion H1; inversion H2; subst.
    - reflexivity.
    - match goal with
      | A : kth_following P b n ?x, C : kth_following P b n ?y |- _ =>
          pose proof (IH x y A C); subst
      end.
      eapply next_boundary_unique; eassumption.
  Qed.

  Theorem g_offset_total b k : valid b -> P (to_us b) -> 0 <= k ->
    to_us b + k * YEAR_MAX_US <= MAX_US -> exists r, iv_offset iv b k = Ok r.
  Proof.
    intros Hb HP Hk Hmax. apply P_inv in HP. destruct HP as [j Ej].
    apply (uo_step_total iv P U b j k Hb Ej Hk).
    assert (G : forall n : nat, B (j + Z.of_nat n) <= B j + Z.of_nat n * YEAR_MAX_US).
    { induction n as [|n IH].
      - replace (j + Z.of_nat 0) with j by lia. lia.
      - replace (j + Z.of_nat (S n)) with (j + Z.of_nat n + 1) by lia.
        pose proof (uo_gap_max iv P U (j + Z.of_nat n)) as M.
        unfold YEAR_MAX_US in *. lia. }
    specialize (G (Z.to_nat k)). replace (Z.of_nat (Z.to_nat k)) with k in G by lia.
    lia.
  Qed.

  (* ---------- range ---------- *)
  Definition in_range_spec (t0 t1 : Z) (st : Z) (x : dt) : Prop :=
    P (to_us x) /\ t0 <= to_us x < t1 /\ (1 < st -> iv_number iv x mod st = 0).

  Lemma keep_iff x st : keep iv x st = true <-> (1 < st -> iv_number iv x mod st = 0).
  Proof.
    unfold keep. destruct (st >? 1) eqn:E.
    - rewrite Z.eqb_eq. split; intros H; [intros _; exact H|apply H; lia].
    - split; [intros _ H; lia|reflexivity].
  Qed.

  Lemma range_loop_spec fuel : forall time j t1 st l,
    valid time -> to_us time = B j ->
    range_loop fuel iv time t1 st = Ok l ->
    Forall valid l /\ StronglySorted lt_us l /\
    Forall (fun x => B j <= to_us x) l /\
    (forall x, valid x -> (In x l <->
       (exists i, j <= i /\ to_us x = B i) /\ to_us x < to_us t1 /\
       (1 < st -> iv_number iv x mod st = 0))).
  Proof.
    induction fuel as [|fuel IH]; intros time j t1 st l Hv Ej H; cbn [range_loop] in H;
      unfold dt_ltb in H; destruct (to_us time <? to_us t1) eqn:C.
    - discriminate.
    - injection H as <-. split; [constructor|]. split; [constructor|]. split; [constructor|].
      intros x Hx. split.
      + intros [].
      + intros ((i & Hi & Ei) & Hlt & _). exfalso.
        pose proof (B_le j i Hi). lia.
    - apply rbind_ok in H. destruct H as (nxt & E1 & H).
      apply rbind_ok in H. destruct H as (rest & E2 & H).
      destruct (uo_step iv P U time j 1 nxt Hv Ej ltac:(lia) E1) as [Hvn En].
      destruct (IH nxt (j + 1) t1 st rest Hvn En E2) as (F1 & F2 & F3 & F4).
      pose proof (B_lt j (j + 1) ltac:(lia)) as Hstep.
      assert (F3' : Forall (fun x => B j <= to_us x) rest).
      { eapply Forall_impl; [|exact F3]. cbn. intros a Ha. lia. }
      assert (Hmem : forall x, valid x ->
                (In x rest \/ (x = time /\ keep iv time st = true) <->
                 (exists i, j <= i /\ to_us x = B i) /\ to_us x < to_us t1 /\
                 (1 < st -> iv_number iv x mod st = 0))).
      { intros x Hx. rewrite (F4 x Hx). split.
        - intros [((i & Hi & Ei) & Hlt & Hk)|[-> Hk]].
          + split; [exists i; split; [lia|exact Ei]|]. split; assumption.
          + split; [exists j; split; [lia|exact Ej]|]. split; [lia|apply keep_iff; exact Hk].
        - intros ((i & Hi & Ei) & Hlt & Hk).
          destruct (Z.eq_dec i j) as [->|Hne].
          + assert (x = time) as ->
              by (apply to_us_inj; [apply valid_wf; exact Hx|apply valid_wf; exact Hv|lia]).
            right. split; [reflexivity|apply keep_iff; exact Hk].
          + left. split; [exists i; split; [lia|exact Ei]|]. split; assumption. }
      destruct (keep iv time st) eqn:K; injection H as <-.
      + split; [constructor; assumption|].
        split; [constructor; [exact F2|]|].
        { eapply Forall_impl; [|exact F3]. cbn. unfold lt_us. intros a Ha. lia. }
        split; [constructor; [lia|exact F3']|].
        intros x Hx. rewrite <- (Hmem x Hx). cbn [In]. split.
        * intros [<-|Hin]; [right; split; reflexivity|left; exact Hin].
        * intros [Hin|[-> _]]; [right; exact Hin|left; reflexivity].
      + split; [exact F1|]. split; [exact F2|]. split; [exact F3'|].
        intros x Hx. rewrite <- (Hmem x Hx). split.
        * intros Hin; left; exact Hin.
        * intros [Hin|[_ Hk]]; [exact Hin|discriminate].
    - injection H as <-. split; [constructor|]. split; [constructor|]. split; [constructor|].
      intros x Hx. split.
      + intros [].
      + intros ((i & Hi & Ei) & Hlt & _). exfalso.
        pose proof (B_le j i Hi). lia.
  Qed.

  Theorem g_range t0 t1 st l : valid t0 -> ms_resolution t0 ->
    iv_range iv t0 t1 st = Ok l ->
    Forall valid l /\ StronglySorted lt_us l /\
    (forall x, valid x -> (In x l <-> in_range_spec (to_us t0) (to_us t1) st x)).
  Proof.
    intros H0 Hms H. unfold iv_range in H.
    apply rbind_ok in H. destruct H as (time & E1 & H).
    destruct (g_ceil_idx t0 time H0 E1) as [Hvt (k & Et & Hlo & Hhi)].
    destruct (range_loop_spec _ time (k + 1) t1 st l Hvt Et H) as (F1 & F2 & _ & F4).
    split; [exact F1|]. split; [exact F2|].
    intros x Hx. rewrite (F4 x Hx). unfold in_range_spec.
    unfold ms_resolution in Hms.
    split.
    - intros ((i & Hi & Ei) & Hlt & Hk). split; [rewrite Ei; apply P_B|].
      split; [|exact Hk]. split; [|exact Hlt].
      pose proof (B_le (k + 1) i Hi). pose proof (uo_ms iv P U (k + 1)) as M. lia.
    - intros (HP & [Hge Hlt] & Hk). split; [|split; assumption].
      apply P_inv in HP. destruct HP as [i Ei]. exists i. split; [|exact Ei].
      assert (k < i) by (apply B_lt_inv; lia). lia.
  Qed.

  (* fuel *)
  Lemma range_loop_fuel fuel : forall time j t1 st,
    valid time -> to_us time = B j -> to_us t1 - B j <= L * Z.of_nat fuel ->
    range_loop fuel iv time t1 st <> NoFuel.
  Proof.
    induction fuel as [|fuel IH]; intros time j t1 st Hv Ej Hf; cbn [range_loop];
      unfold dt_ltb; destruct (to_us time <? to_us t1) eqn:C; try discriminate.
    - exfalso. lia.
    - intros H. apply rbind_nofuel in H. destruct H as [H|(nxt & E1 & H)].
      + exact (uo_step_nofuel iv P U time 1 Hv H).
      + apply rbind_nofuel in H. destruct H as [H|(rest & _ & H)]; [|discriminate].
        destruct (uo_step iv P U time j 1 nxt Hv Ej ltac:(lia) E1) as [Hvn En].
        revert H. apply (IH nxt (j + 1) t1 st Hvn En).
        pose proof (uo_gap iv P U j) as G.
        replace (L * Z.of_nat (S fuel)) with (L * Z.of_nat fuel + L) in Hf by lia. lia.
  Qed.

  Theorem g_range_fuel_enough t0 t1 st : valid t0 -> iv_range iv t0 t1 st <> NoFuel.
  Proof.
    intros H0 H. unfold iv_range in H.
    apply rbind_nofuel in H. destruct H as [H|(time & E1 & H)].
    - unfold iv_ceil in H. apply rbind_nofuel in H. destruct H as [H|(t' & Et' & H)].
      + exact (of_us_chk_nofuel _ H).
      + apply of_us_chk_ok in Et'. destruct Et' as [Hv' _].
        apply rbind_nofuel in H. destruct H as [H|(f & Ef & H)].
        * exact (uo_local_nofuel iv P U t' Hv' H).
        * destruct (uo_local iv P U t' f Hv' Ef) as [Hvf _].
          exact (uo_step_nofuel iv P U f 1 Hvf H).
    - destruct (g_ceil_idx t0 time H0 E1) as [Hvt (k & Et & Hlo & Hhi)].
      revert H. apply (range_loop_fuel _ time (k + 1) t1 st Hvt Et).
      unfold range_fuel. pose proof L_pos as HL.
      set (D := to_us t1 - to_us t0 + 1000).
      assert (HD : to_us t1 - B (k + 1) < D) by (subst D; lia).
      pose proof (Z.div_mod D L ltac:(lia)) as Hdm.
      pose proof (Z.mod_pos_bound D L ltac:(lia)) as Hmb.
      destruct (Z_le_gt_dec 0 (D / L + 1)) as [G|G].
      + replace (Z.of_nat (Z.to_nat (D / L + 1))) with (D / L + 1) by lia.
        replace (L * (D / L + 1)) with (L * (D / L) + L) by lia. lia.
      + replace (Z.of_nat (Z.to_nat (D / L + 1))) with 0 by lia.
        assert (L * (D / L) <= L * (-2)) by (apply Z.mul_le_mono_nonneg_l; lia). lia.
  Qed.

  (* totality inside the representable range *)
  Theorem g_ceil_total t : valid t ->
    MIN_US + WEEK_US + 1000 <= to_us t -> to_us t + YEAR_MAX_US <= MAX_US ->
    exists r, iv_ceil iv t = Ok r.
  Proof.
    intros Ht Hlo Hhi. unfold iv_ceil.
    pose proof (valid_in_range t Ht) as R. apply in_range_iff in R.
    assert (R' : in_range (to_us t - 1000) = true).
    { apply in_range_iff. unfold WEEK_US in Hlo. lia. }
    rewrite (of_us_chk_in_range _ R'). cbn [rbind].
    pose proof (of_us_valid _ R') as Hv'. pose proof (to_us_of_us (to_us t - 1000)) as Et'.
    destruct (uo_local_total iv P U (of_us (to_us t - 1000)) Hv' ltac:(lia)) as [f Ef].
    rewrite Ef. cbn [rbind].
    destruct (uo_local iv P U _ f Hv' Ef) as [Hvf (k & Ek & Hlk & Hhk)].
    apply (uo_step_total iv P U f k 1 Hvf Ek ltac:(lia)).
    pose proof (uo_gap_max iv P U k). lia.
  Qed.

  Theorem g_round_total t : valid t ->
    MIN_US + WEEK_US <= to_us t -> to_us t + YEAR_MAX_US <= MAX_US ->
    exists r, iv_round iv t = Ok r.
  Proof.
    intros Ht Hlo Hhi. unfold iv_round.
    destruct (uo_local_total iv P U t Ht Hlo) as [d0 E0]. rewrite E0. cbn [rbind].
    destruct (uo_local iv P U t d0 Ht E0) as [Hv0 (k & Ek & Hlk & Hhk)].
    destruct (uo_step_total iv P U d0 k 1 Hv0 Ek ltac:(lia)) as [d1 E1].
    { pose proof (uo_gap_max iv P U k). lia. }
    rewrite E1. cbn [rbind]. eexists. reflexivity.
  Qed.

  Lemma range_loop_total fuel : forall time j t1 st,
    valid time -> to_us time = B j -> to_us t1 + YEAR_MAX_US <= MAX_US ->
    range_loop fuel iv time t1 st <> Raise.
  Proof.
    induction fuel as [|fuel IH]; intros time j t1 st Hv Ej Hmax; cbn [range_loop];
      unfold dt_ltb; destruct (to_us time <? to_us t1) eqn:C; try discriminate.
    destruct (uo_step_total iv P U time j 1 Hv Ej ltac:(lia)) as [nxt E1].
    { pose proof (uo_gap_max iv P U j). lia. }
    rewrite E1. cbn [rbind].
    destruct (uo_step iv P U time j 1 nxt Hv Ej ltac:(lia) E1) as [Hvn En].
    specialize (IH nxt (j + 1) t1 st Hvn En Hmax).
    destruct (range_loop fuel iv nxt t1 st); cbn [rbind]; try discriminate. congruence.
  Qed.

  Theorem g_range_total t0 t1 st : valid t0 -> valid t1 ->
    MIN_US + WEEK_US + 1000 <= to_us t0 -> to_us t0 + YEAR_MAX_US <= MAX_US ->
    to_us t1 + YEAR_MAX_US <= MAX_US ->
    exists l, iv_range iv t0 t1 st = Ok l.
  Proof.
    intros H0 H1 Hlo Hhi0 Hhi1.
    destruct (g_ceil_total t0 H0 Hlo Hhi0) as [time E].
    destruct (g_ceil_idx t0 time H0 E) as [Hvt (k & Et & _)].
    pose proof (g_range_fuel_enough t0 t1 st H0) as NF.
    unfold iv_range in *. rewrite E in *. cbn [rbind] in *.
    pose proof (range_loop_total (range_fuel iv t0 t1) time (k + 1) t1 st Hvt Et Hhi1) as NR.
    destruct (range_loop (range_fuel iv t0 t1) iv time t1 st) as [l| |];
      [exists l; reflexivity|congruence|congruence].
  Qed.
End Generic.
