(* Generic counting theory for tick lists (used by TickCountProofs.v).
   A tick set T (a set of epoch microseconds) is described by two numbers:
     separation  gmin : two distinct points of T are at least gmin apart,
     density     gmax : every window (x - gmax, x] contains a point of T.
   For a strictly increasing list L that enumerates T within [lo, hi):
     - consecutive elements are between gmin and gmax apart,
     - (n - 1) * gmin <= hi - 1 - lo   and   hi - lo < (n + 1) * gmax.
   No enumeration of T is needed, which keeps the calendar rows short. *)
From Coq Require Import ZArith List Lia Sorted.
Import ListNotations.
Open Scope Z_scope.

(* ---------- lists -------------------------------------------------------- *)
Lemma SSorted_app_lt : forall l1 l2, StronglySorted Z.lt (l1 ++ l2) ->
  forall x y, In x l1 -> In y l2 -> x < y.
Proof.
  induction l1 as [|a l1 IH]; intros l2 H x y Hx Hy; [contradiction|].
  simpl in H. apply StronglySorted_inv in H. destruct H as [H1 H2].
  destruct Hx as [->|Hx].
  - rewrite Forall_forall in H2. apply H2. apply in_or_app. right. assumption.
  - eapply IH; eassumption.
Qed.

Lemma SSorted_app_r : forall l1 l2, StronglySorted Z.lt (l1 ++ l2) -> StronglySorted Z.lt l2.
Proof.
  induction l1 as [|a l1 IH]; intros l2 H; [assumption|].
  simpl in H. apply StronglySorted_inv in H. apply IH. tauto.
Qed.

Lemma adjacent_Sorted : forall (R : Z -> Z -> Prop) L,
  (forall l1 a b l2, L = l1 ++ a :: b :: l2 -> R a b) -> Sorted R L.
Proof.
  intros R. induction L as [|x L IH]; intros H; [constructor|].
  constructor.
  - apply IH. intros l1 a b l2 E. apply (H (x :: l1) a b l2). rewrite E. reflexivity.
  - destruct L as [|y L]; constructor. apply (H [] x y L). reflexivity.
Qed.

(* the last element of x :: l *)
Fixpoint lastz (x : Z) (l : list Z) : Z :=
  match l with [] => x | y :: l' => lastz y l' end.

(* a chain whose links are between p and q long *)
Lemma chain_span : forall p q l x,
  Sorted (fun a b => p <= b - a <= q) (x :: l) ->
  Z.of_nat (length l) * p <= lastz x l - x <= Z.of_nat (length l) * q.
Proof.
  intros p q. induction l as [|y l IH]; intros x H.
  - simpl. lia.
  - apply Sorted_inv in H. destruct H as [H1 H2]. apply HdRel_inv in H2.
    specialize (IH y H1). cbn [lastz].
    replace (Z.of_nat (length (y :: l))) with (Z.of_nat (length l) + 1) by (simpl; lia).
    lia.
Qed.

Lemma lastz_In : forall l x, In (lastz x l) (x :: l).
Proof.
  induction l as [|y l IH]; intro x; [left; reflexivity|]. right. apply IH.
Qed.

Lemma SSorted_hd_min : forall x l, StronglySorted Z.lt (x :: l) -> forall y, In y (x :: l) -> x <= y.
Proof.
  intros x l H y [->|Hy]; [lia|]. apply StronglySorted_inv in H. destruct H as [_ F].
  rewrite Forall_forall in F. specialize (F y Hy). lia.
Qed.

Lemma SSorted_last_max : forall l x, StronglySorted Z.lt (x :: l) ->
  forall y, In y (x :: l) -> y <= lastz x l.
Proof.
  induction l as [|z l IH]; intros x H y Hy.
  - destruct Hy as [->|[]]. simpl. lia.
  - cbn [lastz]. pose proof H as H'. apply StronglySorted_inv in H. destruct H as [H1 F].
    destruct Hy as [->|Hy].
    + rewrite Forall_forall in F. pose proof (lastz_In l z) as I. specialize (F _ I). lia.
    + apply IH; assumption.
Qed.

(* ---------- the theory --------------------------------------------------- *)
Section Sep.
  Variable T : Z -> Prop.
  Variables gmin gmax : Z.
  Hypothesis gmin_pos : 0 < gmin.
  Hypothesis sep : forall z w, T z -> T w -> z < w -> gmin <= w - z.
  Hypothesis dens : forall x, exists z, T z /\ x - gmax < z <= x.
  Definition enumerates (lo hi : Z) (L : list Z) : Prop :=
    StronglySorted Z.lt L /\ forall z, In z L <-> T z /\ lo <= z < hi.

  (* consecutive ticks are between gmin and gmax apart *)
  Theorem enum_gaps : forall lo hi L, enumerates lo hi L ->
    Sorted (fun a b => gmin <= b - a <= gmax) L.
  Proof.
    intros lo hi L [Lsorted Lmem].
    apply adjacent_Sorted. intros l1 a b l2 E.
    assert (Ia : In a L) by (rewrite E; apply in_or_app; right; left; reflexivity).
    assert (Ib : In b L) by (rewrite E; apply in_or_app; right; right; left; reflexivity).
    pose proof (proj1 (Lmem a) Ia) as [Ta Ra]. pose proof (proj1 (Lmem b) Ib) as [Tb Rb].
    assert (Sab : StronglySorted Z.lt (a :: b :: l2)) by (rewrite E in Lsorted; eapply SSorted_app_r; eassumption).
    assert (Lab : a < b).
    { apply StronglySorted_inv in Sab. destruct Sab as [_ F]. inversion F; assumption. }
    split; [apply sep; assumption|].
    destruct (Z_le_gt_dec (b - a) gmax) as [Q|Q]; [assumption|exfalso].
    destruct (dens (a + gmax)) as (z & Tz & Rz).
    assert (Iz : In z L) by (apply Lmem; split; [assumption|lia]).
    rewrite E in Iz. apply in_app_or in Iz. destruct Iz as [Iz|[Iz|[Iz|Iz]]].
    - rewrite E in Lsorted. pose proof (SSorted_app_lt _ _ Lsorted z a Iz (or_introl eq_refl)). lia.
    - lia.
    - lia.
    - apply StronglySorted_inv in Sab. destruct Sab as [Sb _].
      apply StronglySorted_inv in Sb. destruct Sb as [_ F]. rewrite Forall_forall in F.
      specialize (F z Iz). lia.
  Qed.

  (* at most (hi - 1 - lo) / gmin + 1 ticks *)
  Theorem enum_count_upper : forall lo hi L, enumerates lo hi L -> lo < hi ->
    (Z.of_nat (length L) - 1) * gmin <= hi - 1 - lo.
  Proof.
    intros lo hi L EN Hlh. pose proof (enum_gaps lo hi L EN) as G. destruct EN as [Lsorted Lmem].
    destruct L as [|x l]; [cbn [length]; lia|].
    pose proof (chain_span gmin gmax l x G) as [S1 _].
    pose proof (lastz_In l x) as Il. apply Lmem in Il.
    assert (Ix : In x (x :: l)) by (left; reflexivity). apply Lmem in Ix.
    replace (Z.of_nat (length (x :: l)) - 1) with (Z.of_nat (length l)) by (cbn [length]; lia). lia.
  Qed.

  (* more than (hi - lo) / gmax - 1 ticks *)
  Theorem enum_count_lower : forall lo hi L, enumerates lo hi L ->
    hi - lo < (Z.of_nat (length L) + 1) * gmax.
  Proof.
    intros lo hi L EN. pose proof (enum_gaps lo hi L EN) as G. destruct EN as [Lsorted Lmem].
    assert (gmax_pos : 0 < gmax).
    { destruct (dens 0) as (z & _ & R). lia. }
    destruct (dens (lo + gmax - 1)) as (z1 & T1 & R1).
    destruct (dens (hi - 1)) as (z2 & T2 & R2).
    destruct L as [|x l].
    - cbn [length]. destruct (Z_lt_ge_dec z1 hi) as [Q|Q]; [|lia].
      exfalso. assert (I : In z1 []) by (apply Lmem; split; [assumption|lia]). contradiction.
    - pose proof (chain_span gmin gmax l x G) as [_ S2].
      replace (Z.of_nat (length (x :: l)) + 1) with (Z.of_nat (length l) + 2) by (cbn [length]; lia).
      destruct (Z_lt_ge_dec z1 hi) as [Q1|Q1]; [|nia].
      destruct (Z_lt_ge_dec z2 lo) as [Q2|Q2]; [nia|].
      assert (I1 : In z1 (x :: l)) by (apply Lmem; split; [assumption|lia]).
      assert (I2 : In z2 (x :: l)) by (apply Lmem; split; [assumption|lia]).
      pose proof (SSorted_hd_min x l Lsorted z1 I1).
      pose proof (SSorted_last_max l x Lsorted z2 I2). nia.
  Qed.
End Sep.
