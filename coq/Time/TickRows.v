(* The tick sets of the rows of the method table (labella/scale.py:222-262)
   on epoch microseconds, and for each row its separation gmin and density
   gmax in the sense of Time/TickEnum.v.  Helper of TickCountProofs.v. *)
From Coq Require Import ZArith List Bool Lia ZifyBool Sorted.
From Labella Require Import Time.Calendar Time.CalendarProofs Time.Interval Time.IntervalSpec
  Time.IntervalProofs Time.UnitProofs Time.TickEnum.
Import ListNotations.
Ltac Zify.zify_post_hook ::= Z.to_euclidean_division_equations.
Open Scope Z_scope.

Local Notation D := 86400000000.

(* the instants interval.range(t0, t1, st) keeps: boundaries of the unit whose
   unit number is divisible by st (no filter for st <= 1) *)
Definition tickset (u : unit_id) (st : Z) (z : Z) : Prop :=
  is_boundary u z /\ (1 < st -> unit_number u (of_us z) mod st = 0).

(* a row: separation and density of its tick set *)
Definition row_ok (T : Z -> Prop) (gmin gmax : Z) : Prop :=
  0 < gmin /\ gmin <= gmax /\
  (forall z w, T z -> T w -> z < w -> gmin <= w - z) /\
  (forall x, exists z, T z /\ x - gmax < z <= x).

(* ---------- from range() to an enumeration -------------------------------- *)
Lemma SSorted_map_to_us : forall l, StronglySorted lt_us l -> StronglySorted Z.lt (map to_us l).
Proof.
  induction l as [|x l IH]; intro H; [constructor|].
  apply StronglySorted_inv in H. destruct H as [H1 H2]. simpl. constructor; [apply IH; assumption|].
  rewrite Forall_forall in *. intros z Hz. apply in_map_iff in Hz. destruct Hz as (y & <- & Hy).
  apply H2. assumption.
Qed.

Lemma Sorted_map_to_us : forall (R : Z -> Z -> Prop) l,
  Sorted R (map to_us l) -> Sorted (fun x y => R (to_us x) (to_us y)) l.
Proof.
  intros R. induction l as [|x l IH]; intro H; [constructor|].
  simpl in H. apply Sorted_inv in H. destruct H as [H1 H2]. constructor; [apply IH; assumption|].
  destruct l as [|y l]; constructor. simpl in H2. apply HdRel_inv in H2. assumption.
Qed.

Lemma range_enumerates u t0 t1 st l :
  valid t0 -> valid t1 -> ms_resolution t0 ->
  iv_range (interval_of u) t0 t1 st = Ok l ->
  enumerates (tickset u st) (to_us t0) (to_us t1) (map to_us l).
Proof.
  intros V0 V1 M0 H. destruct (units_range_spec u t0 t1 st l V0 M0 H) as (F1 & F2 & F3).
  split; [apply SSorted_map_to_us; assumption|].
  intros z. rewrite in_map_iff. split.
  - intros (x & <- & Hx). assert (Vx : valid x) by (rewrite Forall_forall in F1; apply F1; assumption).
    apply (F3 x Vx) in Hx. destruct Hx as (B & R & N). unfold tickset.
    rewrite (of_us_to_us x (valid_wf x Vx)). tauto.
  - intros [[B N] R].
    pose proof (valid_in_range _ V0) as R0. pose proof (valid_in_range _ V1) as R1.
    apply in_range_iff in R0. apply in_range_iff in R1.
    assert (Vx : valid (of_us z)) by (apply of_us_valid; apply in_range_iff; clear - R R0 R1; lia).
    exists (of_us z). split; [apply to_us_of_us|].
    apply (F3 _ Vx). rewrite to_us_of_us. tauto.
Qed.

(* ---------- rows whose ticks are the multiples of a length ---------------- *)
Lemma multiples_row : forall len, 0 < len -> row_ok (fun z => z mod len = 0) len len.
Proof.
  intros len Hl. split; [assumption|]. split; [lia|]. split.
  - intros z w Hz Hw L. apply Z.mod_divide in Hz; [|lia]. apply Z.mod_divide in Hw; [|lia].
    destruct Hz as [q ->]. destruct Hw as [p ->].
    apply Z.mul_lt_mono_pos_r in L; [|assumption]. nia.
  - intro x. exists (x / len * len). split; [apply Z.mod_mul; lia|].
    pose proof (Z.div_mod x len ltac:(lia)). pose proof (Z.mod_pos_bound x len Hl). lia.
Qed.

Lemma row_ok_ext : forall (T T' : Z -> Prop) gmin gmax,
  (forall z, T z <-> T' z) -> row_ok T' gmin gmax -> row_ok T gmin gmax.
Proof.
  intros T T' gmin gmax E (H1 & H2 & H3 & H4). split; [assumption|]. split; [assumption|]. split.
  - intros z w Hz Hw. apply H3; apply E; assumption.
  - intro x. destruct (H4 x) as (z & Tz & R). exists z. split; [apply E|]; assumption.
Qed.

Ltac clock_row :=
  apply (row_ok_ext _ _ _ _ (fun z => _ : _ <-> z mod _ = 0));
  [|apply multiples_row; lia].

Lemma second_rows : forall st, In st [1; 5; 15; 30] ->
  row_ok (tickset USecond st) (st * 1000000) (st * 1000000).
Proof.
  intros st Hst.
  apply (row_ok_ext _ (fun z => z mod (st * 1000000) = 0)); [|apply multiples_row; simpl in Hst; lia].
  intro z. unfold tickset, is_boundary, unit_number. rewrite to_us_of_us.
  simpl in Hst. destruct Hst as [<-|[<-|[<-|[<-|[]]]]]; lia.
Qed.

Lemma minute_rows : forall st, In st [1; 5; 15; 30] ->
  row_ok (tickset UMinute st) (st * 60000000) (st * 60000000).
Proof.
  intros st Hst.
  apply (row_ok_ext _ (fun z => z mod (st * 60000000) = 0)); [|apply multiples_row; simpl in Hst; lia].
  intro z. unfold tickset, is_boundary, unit_number. rewrite to_us_of_us.
  simpl in Hst. destruct Hst as [<-|[<-|[<-|[<-|[]]]]]; lia.
Qed.

Lemma hour_rows : forall st, In st [1; 3; 6; 12] ->
  row_ok (tickset UHour st) (st * 3600000000) (st * 3600000000).
Proof.
  intros st Hst.
  apply (row_ok_ext _ (fun z => z mod (st * 3600000000) = 0)); [|apply multiples_row; simpl in Hst; lia].
  intro z. unfold tickset, is_boundary, unit_number. rewrite to_us_of_us.
  simpl in Hst. destruct Hst as [<-|[<-|[<-|[<-|[]]]]]; lia.
Qed.

Lemma day1_row : row_ok (tickset UDay 1) D D.
Proof.
  apply (row_ok_ext _ (fun z => z mod D = 0)); [|apply multiples_row; lia].
  intro z. unfold tickset, is_boundary. split; [tauto|]. intro H. split; [assumption|lia].
Qed.

(* weeks: Sunday midnights are the day numbers congruent to 3 modulo 7 *)
Lemma week_row : row_ok (tickset UWeek 1) (7 * D) (7 * D).
Proof.
  split; [lia|]. split; [lia|]. split.
  - intros z w [[Hz1 Hz2] _] [[Hw1 Hw2] _] L. unfold isoweekday_of_days in *. lia.
  - intro x. exists ((x / D - (x / D + 4) mod 7) * D). split.
    + unfold tickset, is_boundary, isoweekday_of_days. split; [|lia].
      rewrite Z.mod_mul by lia. rewrite Z.div_mul by lia. split; [reflexivity|lia].
    + lia.
Qed.

(* ---------- calendar facts on day numbers --------------------------------- *)
(* the calendar fields of the midnight of day number n *)
Lemma midnight_fields n : exists y m d,
  civil_from_days n = (y, m, d) /\ md_ok y m d /\ days_from_civil y m d = n /\
  dt_y (of_us (n * D)) = y /\ dt_mo (of_us (n * D)) = m /\ dt_d (of_us (n * D)) = d.
Proof.
  destruct (of_us_fields (n * D)) as (y & m & d & E & F).
  rewrite Z.div_mul in E by lia. exists y, m, d.
  destruct (civil_from_days_spec n y m d E) as [M Q].
  rewrite F. cbn [dt_y dt_mo dt_d]. tauto.
Qed.

(* the first of month i is the date (i / 12, i mod 12 + 1, 1) *)
Lemma fom_fields i :
  dt_y (of_us (first_of_month i * D)) = i / 12 /\
  dt_mo (of_us (first_of_month i * D)) = i mod 12 + 1 /\
  dt_d (of_us (first_of_month i * D)) = 1.
Proof.
  destruct (midnight_fields (first_of_month i)) as (y & m & d & E & M & Q & -> & -> & ->).
  assert (M' : md_ok (i / 12) (i mod 12 + 1) 1).
  { unfold md_ok. pose proof (days_in_month_bounds (i / 12) (i mod 12 + 1)). lia. }
  unfold first_of_month in Q.
  destruct (days_from_civil_inj _ _ _ _ _ _ M M' Q) as (-> & -> & ->). auto.
Qed.

Lemma month_boundary_iff z : is_boundary UMonth z <-> exists i, z = first_of_month i * D.
Proof.
  unfold is_boundary. split.
  - intros (y & m & Hm & ->). exists (12 * y + m - 1).
    change (mkdt y m 1 0 0 0 0) with (first_day y m). apply to_us_first_day. assumption.
  - intros [i ->]. exists (i / 12), (i mod 12 + 1). split; [lia|].
    change (mkdt (i / 12) (i mod 12 + 1) 1 0 0 0 0) with (first_day (i / 12) (i mod 12 + 1)).
    symmetry. apply first_day_of_index.
Qed.

Lemma year_boundary_iff z : is_boundary UYear z <-> exists y, z = first_of_month (12 * y) * D.
Proof.
  unfold is_boundary. split.
  - intros [y ->]. exists y. change (mkdt y 1 1 0 0 0 0) with (first_day y 1). apply to_us_jan1.
  - intros [y ->]. exists y. change (mkdt y 1 1 0 0 0 0) with (first_day y 1). symmetry. apply to_us_jan1.
Qed.

(* the month that contains day number n *)
Lemma month_of_day n : exists i, first_of_month i <= n < first_of_month i + 31 /\
                                 n < first_of_month (i + 1).
Proof.
  destruct (midnight_fields n) as (y & m & d & E & M & Q & _).
  exists (12 * y + m - 1). pose proof (days_from_civil_month_bounds y m d M) as B.
  rewrite Q in B. destruct M as [Hm Hd]. rewrite (days_from_civil_fom y m d Hm) in Q.
  pose proof (days_in_month_bounds y m).
  replace (12 * y + m - 1 + 1) with (12 * y + m) by lia. lia.
Qed.

Lemma fom_years_grow_nat y (n : nat) :
  first_of_month (12 * y) + 365 * Z.of_nat n <= first_of_month (12 * (y + Z.of_nat n))
  <= first_of_month (12 * y) + 366 * Z.of_nat n.
Proof.
  induction n as [|n IH].
  - replace (y + Z.of_nat 0) with y by lia. lia.
  - replace (y + Z.of_nat (S n)) with (y + Z.of_nat n + 1) by lia.
    rewrite fom_year_succ. pose proof (year_len_bounds (y + Z.of_nat n)). lia.
Qed.

Lemma fom_years_grow y y' : y <= y' ->
  first_of_month (12 * y) + 365 * (y' - y) <= first_of_month (12 * y')
  <= first_of_month (12 * y) + 366 * (y' - y).
Proof.
  intros H. pose proof (fom_years_grow_nat y (Z.to_nat (y' - y))) as G.
  replace (Z.of_nat (Z.to_nat (y' - y))) with (y' - y) in G by lia.
  replace (y + (y' - y)) with y' in G by lia. exact G.
Qed.

(* ---------- day ticks with skip 2: the odd days of every month ------------ *)
Lemma day2_row : row_ok (tickset UDay 2) D (2 * D).
Proof.
  split; [lia|]. split; [lia|]. split.
  - intros z w [Hz _] [Hw _] L. unfold is_boundary in *. lia.
  - intro x. set (n := x / D).
    destruct (midnight_fields n) as (y & m & d & E & M & Q & Fy & Fm & Fd).
    destruct (Z.eq_dec ((d - 1) mod 2) 0) as [Ev|Od].
    + exists (n * D). split; [|subst n; lia].
      split; [unfold is_boundary; apply Z.mod_mul; lia|].
      intros _. unfold unit_number. rewrite Fd. exact Ev.
    + (* an even day of the month: the day before is an odd day of the same month *)
      assert (M' : md_ok y m (d - 1)) by (unfold md_ok in *; lia).
      assert (Q' : days_from_civil y m (d - 1) = n - 1).
      { rewrite days_from_civil_day. rewrite days_from_civil_day in Q. lia. }
      destruct (midnight_fields (n - 1)) as (y' & m' & d' & E' & M'' & Q'' & _ & _ & Fd').
      rewrite <- Q' in Q''.
      destruct (days_from_civil_inj _ _ _ _ _ _ M'' M' Q'') as (_ & _ & ->).
      exists ((n - 1) * D). split; [|subst n; lia].
      split; [unfold is_boundary; apply Z.mod_mul; lia|].
      intros _. unfold unit_number. rewrite Fd'. lia.
Qed.

(* ---------- month ticks ---------------------------------------------------- *)
Lemma month1_row : row_ok (tickset UMonth 1) (28 * D) (31 * D).
Proof.
  split; [lia|]. split; [lia|]. split.
  - intros z w [Hz _] [Hw _] L. apply month_boundary_iff in Hz, Hw.
    destruct Hz as [i ->]. destruct Hw as [j ->].
    assert (i < j) by (apply first_of_month_lt_inv; lia).
    pose proof (first_of_month_grow i j ltac:(lia)). lia.
  - intro x. destruct (month_of_day (x / D)) as (i & B & _).
    exists (first_of_month i * D). split; [|lia].
    split; [apply month_boundary_iff; eexists; reflexivity|lia].
Qed.

Lemma month3_row : row_ok (tickset UMonth 3) (84 * D) (93 * D).
Proof.
  split; [lia|]. split; [lia|]. split.
  - intros z w [Hz Nz] [Hw Nw] L. apply month_boundary_iff in Hz, Hw.
    destruct Hz as [i ->]. destruct Hw as [j ->].
    specialize (Nz ltac:(lia)). specialize (Nw ltac:(lia)). unfold unit_number in Nz, Nw.
    destruct (fom_fields i) as (_ & Ei & _). destruct (fom_fields j) as (_ & Ej & _).
    rewrite Ei in Nz. rewrite Ej in Nw.
    assert (i < j) by (apply first_of_month_lt_inv; lia).
    assert (i + 3 <= j) by lia.
    pose proof (first_of_month_grow i j ltac:(lia)). lia.
  - intro x. destruct (month_of_day (x / D)) as (i & B & _).
    set (i0 := i / 3 * 3).
    exists (first_of_month i0 * D).
    pose proof (first_of_month_grow i0 i ltac:(subst i0; lia)) as G.
    split; [|subst i0; lia].
    split; [apply month_boundary_iff; eexists; reflexivity|].
    intros _. unfold unit_number. destruct (fom_fields i0) as (_ & -> & _). subst i0. lia.
Qed.

(* ---------- year ticks, every k-th year ------------------------------------ *)
Lemma year_row : forall k, 1 <= k -> row_ok (tickset UYear k) (365 * k * D) (366 * k * D).
Proof.
  intros k Hk. split; [lia|]. split; [lia|]. split.
  - intros z w [Hz Nz] [Hw Nw] L. apply year_boundary_iff in Hz, Hw.
    destruct Hz as [y ->]. destruct Hw as [y' ->].
    assert (Ly : y < y').
    { destruct (Z_lt_le_dec y y') as [Q|Q]; [assumption|].
      pose proof (fom_years_grow y' y Q). lia. }
    pose proof (fom_years_grow y y' ltac:(lia)) as G.
    assert (k <= y' - y).
    { destruct (Z.eq_dec k 1) as [->|N1]; [lia|].
      specialize (Nz ltac:(lia)). specialize (Nw ltac:(lia)). unfold unit_number in Nz, Nw.
      destruct (fom_fields (12 * y)) as (Ey & _). destruct (fom_fields (12 * y')) as (Ey' & _).
      rewrite Ey in Nz. rewrite Ey' in Nw.
      replace (12 * y / 12) with y in Nz by lia. replace (12 * y' / 12) with y' in Nw by lia.
      apply Z.mod_divide in Nz; [|lia]. apply Z.mod_divide in Nw; [|lia].
      destruct Nz as [p ->]. destruct Nw as [q ->].
      assert (p < q) by nia. nia. }
    nia.
  - intro x. destruct (midnight_fields (x / D)) as (y & m & d & E & M & Q & _).
    pose proof (days_from_civil_month_bounds y m d M) as B. rewrite Q in B.
    destruct M as [Hm Hd].
    pose proof (first_of_month_le (12 * y) (12 * y + m - 1) ltac:(lia)) as B1.
    pose proof (first_of_month_le (12 * y + m) (12 * (y + 1)) ltac:(lia)) as B2.
    set (y0 := y / k * k).
    assert (Hy0 : y0 <= y < y0 + k).
    { subst y0. pose proof (Z.div_mod y k ltac:(lia)). pose proof (Z.mod_pos_bound y k ltac:(lia)). lia. }
    pose proof (fom_years_grow y0 (y + 1) ltac:(lia)) as G.
    pose proof (fom_years_grow y0 y ltac:(lia)) as G'.
    exists (first_of_month (12 * y0) * D). split.
    + split; [apply year_boundary_iff; eexists; reflexivity|].
      intros _. unfold unit_number. destruct (fom_fields (12 * y0)) as (-> & _).
      replace (12 * y0 / 12) with y0 by lia. subst y0. apply Z.mod_mul. lia.
    + assert (y + 1 - y0 <= k) by lia.
      assert (366 * (y + 1 - y0) <= 366 * k) by lia. lia.
Qed.
