(* Model of Python's naive datetime / timedelta as labella/d3_time.py uses
   them: proleptic Gregorian calendar, microsecond resolution, years 1..9999.
   Model only: no proofs here (proofs: Time/CalendarProofs.v).

   An instant is either a record of calendar fields (`dt`, what Python's
   `datetime` stores) or an integer number of microseconds since
   1970-01-01T00:00:00 (`to_us`, what `x - _EPOCH` is).  The calendar
   functions are total on ALL integer years (proleptic, with a year 0), the
   Python range check 1..9999 is applied exactly where Python applies it
   (`of_us_chk`, `replace_*`, `mk_datetime`), where Python raises the model
   returns `Raise`. *)
From Coq Require Import ZArith List Bool.
Import ListNotations.
Open Scope Z_scope.

(* ---------- results: value | Python exception | model out of fuel -------- *)
Inductive res (A : Type) : Type :=
| Ok (a : A)
| Raise          (* Python raises ValueError / OverflowError here *)
| NoFuel.        (* model artefact; proved unreachable (`…_fuel_enough`) *)
Arguments Ok {A} a.
Arguments Raise {A}.
Arguments NoFuel {A}.

Definition rbind {A B} (r : res A) (f : A -> res B) : res B :=
  match r with Ok a => f a | Raise => Raise | NoFuel => NoFuel end.

(* ---------- Gregorian calendar ------------------------------------------ *)
Definition is_leap (y : Z) : bool :=
  ((y mod 4 =? 0) && negb (y mod 100 =? 0)) || (y mod 400 =? 0).

Definition days_in_month (y m : Z) : Z :=
  if m =? 2 then (if is_leap y then 29 else 28)
  else if (m =? 4) || (m =? 6) || (m =? 9) || (m =? 11) then 30
  else 31.

(* days since 1970-01-01 of the civil date y-m-d (March-based 400-year eras) *)
Definition days_from_civil (y m d : Z) : Z :=
  let y' := if m <=? 2 then y - 1 else y in
  let era := y' / 400 in
  let yoe := y' - era * 400 in
  let mp := if m >? 2 then m - 3 else m + 9 in
  let doy := (153 * mp + 2) / 5 + d - 1 in
  let doe := yoe * 365 + yoe / 4 - yoe / 100 + doy in
  era * 146097 + doe - 719468.

(* the civil date of a day number, as a function of (era, day of era) *)
Definition civil_of_era_doe (era doe : Z) : Z * Z * Z :=
  let yoe := (doe - doe / 1460 + doe / 36524 - doe / 146096) / 365 in
  let doy := doe - (365 * yoe + yoe / 4 - yoe / 100) in
  let mp := (5 * doy + 2) / 153 in
  let d := doy - (153 * mp + 2) / 5 + 1 in
  let m := if mp <? 10 then mp + 3 else mp - 9 in
  let y := yoe + era * 400 in
  ((if m <=? 2 then y + 1 else y), m, d).

Definition civil_from_days (n : Z) : Z * Z * Z :=
  let z := n + 719468 in
  civil_of_era_doe (z / 146097) (z mod 146097).

(* day number of the first day of month number i, months counted from
   January of year 0: i = 12*y + (m-1) *)
Definition first_of_month (i : Z) : Z := days_from_civil (i / 12) (i mod 12 + 1) 1.
Definition month_len (i : Z) : Z := days_in_month (i / 12) (i mod 12 + 1).

(* date.isoweekday(): Monday = 1 … Sunday = 7.  1970-01-01 was a Thursday. *)
Definition isoweekday_of_days (n : Z) : Z := (n + 3) mod 7 + 1.

(* ---------- datetime ------------------------------------------------------ *)
Record dt : Type := mkdt {
  dt_y : Z; dt_mo : Z; dt_d : Z; dt_h : Z; dt_mi : Z; dt_s : Z; dt_us : Z }.

Definition US_S : Z := 1000000.
Definition US_MIN : Z := 60000000.
Definition US_H : Z := 3600000000.
Definition US_DAY : Z := 86400000000.

(* all fields but the year in range *)
Definition wfb (t : dt) : bool :=
  (1 <=? dt_mo t) && (dt_mo t <=? 12) &&
  (1 <=? dt_d t) && (dt_d t <=? days_in_month (dt_y t) (dt_mo t)) &&
  (0 <=? dt_h t) && (dt_h t <? 24) && (0 <=? dt_mi t) && (dt_mi t <? 60) &&
  (0 <=? dt_s t) && (dt_s t <? 60) && (0 <=? dt_us t) && (dt_us t <? 1000000).
(* what the datetime constructor accepts: MINYEAR = 1, MAXYEAR = 9999 *)
Definition validb (t : dt) : bool :=
  (1 <=? dt_y t) && (dt_y t <=? 9999) && wfb t.
Definition wf (t : dt) : Prop := wfb t = true.
Definition valid (t : dt) : Prop := validb t = true.

(* (t - _EPOCH) in microseconds *)
Definition to_us (t : dt) : Z :=
  (((days_from_civil (dt_y t) (dt_mo t) (dt_d t) * 24 + dt_h t) * 60 + dt_mi t) * 60
   + dt_s t) * 1000000 + dt_us t.

Definition of_us (z : Z) : dt :=
  let days := z / 86400000000 in
  let r := z mod 86400000000 in
  let '(y, m, d) := civil_from_days days in
  mkdt y m d (r / 3600000000) ((r / 60000000) mod 60) ((r / 1000000) mod 60)
       (r mod 1000000).

(* datetime.min and datetime.max in epoch microseconds *)
Definition MIN_US : Z := -62135596800000000.   (* 0001-01-01T00:00:00 *)
Definition MAX_US : Z := 253402300799999999.   (* 9999-12-31T23:59:59.999999 *)
Definition dt_min : dt := mkdt 1 1 1 0 0 0 0.
Definition dt_max : dt := mkdt 9999 12 31 23 59 59 999999.

Definition in_range (z : Z) : bool := (MIN_US <=? z) && (z <=? MAX_US).

(* _EPOCH + timedelta(microseconds = z): OverflowError outside datetime.min..max *)
Definition of_us_chk (z : Z) : res dt :=
  if in_range z then Ok (of_us z) else Raise.

(* date + timedelta(microseconds = delta) *)
Definition add_us (t : dt) (delta : Z) : res dt := of_us_chk (to_us t + delta).

(* datetime(y, m, d, …) and x.replace(field = v): ValueError on an invalid result *)
Definition chk (t : dt) : res dt := if validb t then Ok t else Raise.
Definition replace_year (t : dt) (y : Z) : res dt :=
  chk (mkdt y (dt_mo t) (dt_d t) (dt_h t) (dt_mi t) (dt_s t) (dt_us t)).
Definition replace_month (t : dt) (m : Z) : res dt :=
  chk (mkdt (dt_y t) m (dt_d t) (dt_h t) (dt_mi t) (dt_s t) (dt_us t)).
Definition replace_day (t : dt) (d : Z) : res dt :=
  chk (mkdt (dt_y t) (dt_mo t) d (dt_h t) (dt_mi t) (dt_s t) (dt_us t)).
Definition replace_month_day (t : dt) (m d : Z) : res dt :=
  chk (mkdt (dt_y t) m d (dt_h t) (dt_mi t) (dt_s t) (dt_us t)).
(* datetime(t.year, t.month, t.day) *)
Definition date_of (t : dt) : res dt :=
  chk (mkdt (dt_y t) (dt_mo t) (dt_d t) 0 0 0 0).

Definition isoweekday (t : dt) : Z :=
  isoweekday_of_days (days_from_civil (dt_y t) (dt_mo t) (dt_d t)).

(* Python compares datetimes field by field; on valid values that is the
   order of to_us (CalendarProofs.to_us_lt_lex) *)
Definition dt_ltb (a b : dt) : bool := to_us a <? to_us b.

(* ---------- bounded universal quantifier used by the calendar sweeps ----- *)
(* forall_range f lo n = f lo && f (lo+1) && … && f (lo+n-1), by N.iter with a
   Z counter (never a nat loop) *)
Definition forall_range (f : Z -> bool) (lo : Z) (n : N) : bool :=
  fst (N.iter n (fun p : bool * Z => let (b, i) := p in (b && f i, i + 1)) (true, lo)).
