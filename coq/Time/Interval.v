(* Model of labella/d3_time.py (as repaired: zone-free epoch arithmetic,
   timedelta day/week steps).  Model only: no proofs here.

   d3_time.py:18-20   _EPOCH, milli2dt, dt2milli
     dt2milli(x) = (x - _EPOCH) / timedelta(milliseconds=1)   (a float)
     milli2dt(x) = _EPOCH + timedelta(milliseconds=x)
   The float number of milliseconds is modelled by the exact integer number
   of MICROseconds `to_us x` (Python datetimes have microsecond resolution):
   dt2milli x = to_us x / 1000 exactly whenever x has millisecond resolution
   (the documented domain of the properties), and milli2dt (m) = of_us (1000 m).
   For such instants all quantities below are integers < 2^53, so the double
   arithmetic of the code is exact.  [For instants with a non-zero
   microsecond part the code's doubles carry a rounding error of < 1 µs
   inside years 1900-2200; the model is then the exact-arithmetic reading.]

   math.floor(ms / L) * L  with L in {1e3, 6e4, 36e5} ms  is
   (to_us x / (1000 L)) * (1000 L)  in microseconds (floor division). *)
From Coq Require Import ZArith List Bool.
From Labella Require Import Time.Calendar.
Import ListNotations.
Open Scope Z_scope.

(* class d3_time_interval (d3_time.py:29-68): the three callables.  iv_minlen
   is not in the code: it is the least distance between two boundaries of the
   unit, used only to compute the fuel of `range`. *)
Record interval : Type := mk_interval {
  iv_local : dt -> res dt;
  iv_step : dt -> Z -> res dt;
  iv_number : dt -> Z;
  iv_minlen : Z }.

(* ---------- second (d3_time.py:74-78), minute (:86-90), hour (:99-111) ---- *)
(* floor by epoch arithmetic; step adds math.floor(offset) * L (offset is an
   int at every call site, so math.floor is the identity) *)
Definition epoch_floor (len : Z) (t : dt) : res dt := of_us_chk (to_us t / len * len).
Definition epoch_step (len : Z) (t : dt) (k : Z) : res dt := of_us_chk (to_us t + k * len).

Definition iv_second : interval :=
  mk_interval (epoch_floor US_S) (epoch_step US_S) dt_s US_S.
Definition iv_minute : interval :=
  mk_interval (epoch_floor US_MIN) (epoch_step US_MIN) dt_mi US_MIN.
(* d3_time_hour_local: timezone = getTimezoneOffset(date)/60 = 0 *)
Definition iv_hour : interval :=
  mk_interval (epoch_floor US_H) (epoch_step US_H) dt_h US_H.

(* ---------- day (d3_time.py:121-142) ------------------------------------- *)
(* local: datetime(date.year, date.month, date.day)
   step : date + timedelta(days=offset);  number: date.day - 1 *)
Definition day_local (t : dt) : res dt := date_of t.
Definition day_step (t : dt) (k : Z) : res dt := add_us t (k * US_DAY).
Definition iv_day : interval :=
  mk_interval day_local day_step (fun t => dt_d t - 1) US_DAY.

(* ---------- year (d3_time.py:213-224), needed by dayOfYear --------------- *)
(* local: d3_time["day"](date).replace(month=1, day=1)
   step : date.replace(year=date.year + offset);  number: date.year *)
Definition year_local (t : dt) : res dt :=
  rbind (day_local t) (fun nd => replace_month_day nd 1 1).
Definition year_step (t : dt) (k : Z) : res dt := replace_year t (dt_y t + k).
Definition iv_year : interval :=
  mk_interval year_local year_step dt_y (365 * US_DAY).

(* day_of_year (d3_time.py:125-129): tzoff = 0;
   math.floor((dt2milli(date) - dt2milli(year)) / 864e5).  Raises only if
   year_local does (never on a valid date); modelled with default 0 there. *)
Definition day_of_year (t : dt) : Z :=
  match year_local t with
  | Ok yr => (to_us t - to_us yr) / US_DAY
  | _ => 0
  end.

(* ---------- week, Sunday start (d3_time.py:150-176) ----------------------- *)
(* d3_time_week_local: i = 7; ndate = day(date);
   diff = ((date.isoweekday() % 7) + i) % 7; ndate - timedelta(days=diff) *)
Definition week_local (t : dt) : res dt :=
  rbind (day_local t) (fun nd =>
    let diff := ((isoweekday t mod 7) + 7) mod 7 in
    add_us nd (- (diff * US_DAY))).
(* step: date + timedelta(days=7 * math.floor(offset)) *)
Definition week_step (t : dt) (k : Z) : res dt := add_us t (7 * k * US_DAY).
(* d3_time_week_number: i = 7; day = year(date).isoweekday() % 7;
   math.floor((dayOfYear(date) + (day + i) % 7) / 7) - (day != i)
   [day is in 0..6, so `day != 7` is always True, i.e. 1: the port subtracts 1
    in every year, also in years starting on a Sunday, unlike d3.js] *)
Definition week_number (t : dt) : Z :=
  match year_local t with
  | Ok yr =>
      let day := isoweekday yr mod 7 in
      (day_of_year t + (day + 7) mod 7) / 7 - (if day =? 7 then 0 else 1)
  | _ => 0
  end.
Definition iv_week : interval :=
  mk_interval week_local week_step week_number (7 * US_DAY).

(* ---------- month (d3_time.py:184-205) ------------------------------------ *)
(* d3_time_month_local: day(date).replace(day=1) *)
Definition month_local (t : dt) : res dt :=
  rbind (day_local t) (fun nd => replace_day nd 1).
(* d3_time_month_offset:
     nmonth = date.month + offset
     while nmonth > 12: ndate = ndate.replace(year=ndate.year + 1); nmonth -= 12
     ndate = ndate.replace(month=nmonth)
   (replace raises for 29 Feb -> non-leap year, a day beyond the target
    month's length, year 10000, or nmonth < 1) *)
Fixpoint month_loop (fuel : nat) (t : dt) (nmonth : Z) : res (dt * Z) :=
  if nmonth >? 12 then
    match fuel with
    | O => NoFuel
    | S f => rbind (replace_year t (dt_y t + 1)) (fun t' => month_loop f t' (nmonth - 12))
    end
  else Ok (t, nmonth).
Definition month_fuel (nmonth : Z) : nat := Z.to_nat (nmonth / 12 + 1).
Definition month_step (t : dt) (k : Z) : res dt :=
  let nmonth := dt_mo t + k in
  rbind (month_loop (month_fuel nmonth) t nmonth) (fun p => replace_month (fst p) (snd p)).
Definition iv_month : interval :=
  mk_interval month_local month_step (fun t => dt_mo t - 1) (28 * US_DAY).

(* ---------- the generic methods of d3_time_interval (d3_time.py:35-68) ---- *)
Definition iv_floor (iv : interval) (t : dt) : res dt := iv_local iv t.

(* ceil: ndate = local(milli2dt(dt2milli(date) - 1)); step(ndate, 1) *)
Definition iv_ceil (iv : interval) (t : dt) : res dt :=
  rbind (of_us_chk (to_us t - 1000)) (fun t' =>
  rbind (iv_local iv t') (fun f => iv_step iv f 1)).

Definition iv_offset (iv : interval) (t : dt) (k : Z) : res dt := iv_step iv t k.

(* round: d0 = local(date); d1 = offset(d0, 1); d0 if date - d0 < d1 - date else d1 *)
Definition iv_round (iv : interval) (t : dt) : res dt :=
  rbind (iv_local iv t) (fun d0 =>
  rbind (iv_step iv d0 1) (fun d1 =>
  Ok (if to_us t - to_us d0 <? to_us d1 - to_us t then d0 else d1))).

(* range: time = ceil(t0); while time < t1: [if number(time) % dt == 0:]
   append(time); time = step(time, 1).  The filter is applied only if dt > 1. *)
Definition keep (iv : interval) (time : dt) (step : Z) : bool :=
  if step >? 1 then iv_number iv time mod step =? 0 else true.

Fixpoint range_loop (fuel : nat) (iv : interval) (time t1 : dt) (step : Z) : res (list dt) :=
  if dt_ltb time t1 then
    match fuel with
    | O => NoFuel
    | S f =>
        rbind (iv_step iv time 1) (fun nxt =>
        rbind (range_loop f iv nxt t1 step) (fun rest =>
        Ok (if keep iv time step then time :: rest else rest)))
    end
  else Ok [].

Definition range_fuel (iv : interval) (t0 t1 : dt) : nat :=
  Z.to_nat ((to_us t1 - to_us t0 + 1000) / iv_minlen iv + 1).

Definition iv_range (iv : interval) (t0 t1 : dt) (step : Z) : res (list dt) :=
  rbind (iv_ceil iv t0) (fun time => range_loop (range_fuel iv t0 t1) iv time t1 step).

(* ---------- the table d3_time[...] ---------------------------------------- *)
Inductive unit_id : Type := USecond | UMinute | UHour | UDay | UWeek | UMonth | UYear.

Definition interval_of (u : unit_id) : interval :=
  match u with
  | USecond => iv_second | UMinute => iv_minute | UHour => iv_hour
  | UDay => iv_day | UWeek => iv_week | UMonth => iv_month | UYear => iv_year
  end.
