(* Specification vocabulary for property C17, independent of the interval
   code of Time/Interval.v: what a boundary of each unit IS, what "the k-th
   following boundary" means, and the unit numbers used by the range filter.
   Definitions only. *)
From Coq Require Import ZArith List Bool.
From Labella Require Import Time.Calendar Time.Interval.
Import ListNotations.
Open Scope Z_scope.

(* Boundaries, as epoch microseconds.
   second/minute/hour/day: whole multiples of the unit length since the epoch
     (1970-01-01T00:00:00 is itself a boundary of all four);
   week: midnight of a day whose ISO weekday is 7 (Sunday);
   month: midnight of the first day of a month; year: midnight of 1 January. *)
Definition is_boundary (u : unit_id) (x : Z) : Prop :=
  match u with
  | USecond => x mod 1000000 = 0
  | UMinute => x mod 60000000 = 0
  | UHour => x mod 3600000000 = 0
  | UDay => x mod 86400000000 = 0
  | UWeek => x mod 86400000000 = 0 /\ isoweekday_of_days (x / 86400000000) = 7
  | UMonth => exists y m, 1 <= m <= 12 /\ x = to_us (mkdt y m 1 0 0 0 0)
  | UYear => exists y, x = to_us (mkdt y 1 1 0 0 0 0)
  end.

(* r is the first boundary strictly after b *)
Definition next_boundary (P : Z -> Prop) (b r : Z) : Prop :=
  P r /\ b < r /\ forall x, P x -> b < x -> r <= x.

(* r is the k-th boundary after b (k = 0: b itself) *)
Inductive kth_following (P : Z -> Prop) (b : Z) : nat -> Z -> Prop :=
| kf_O : kth_following P b O b
| kf_S : forall n r r', kth_following P b n r -> next_boundary P r r' ->
         kth_following P b (S n) r'.

(* The unit number of an instant (the quantity the range filter tests):
   the clock/calendar field, written on epoch microseconds where that is
   possible without the calendar.  Week: the number of whole weeks between
   the Sunday on or before 1 January of the instant's year and the instant,
   minus one.  [This is what d3_time_week_number computes in the Python port;
   on Sundays it is strftime's %U minus 1 in years that do not start on a
   Sunday and %U minus 2 in years that do (measured 1900-2200): the code
   subtracts `(day != i)` with i = 7 and day in 0..6, which is always 1.] *)
Definition sunday_on_or_before (n : Z) : Z := n - (n + 4) mod 7.
Definition unit_number (u : unit_id) (t : dt) : Z :=
  match u with
  | USecond => (to_us t / 1000000) mod 60
  | UMinute => (to_us t / 60000000) mod 60
  | UHour => (to_us t / 3600000000) mod 24
  | UDay => dt_d t - 1
  | UWeek => (to_us t / 86400000000
              - sunday_on_or_before (days_from_civil (dt_y t) 1 1)) / 7 - 1
  | UMonth => dt_mo t - 1
  | UYear => dt_y t
  end.

Definition lt_us (a b : dt) : Prop := to_us a < to_us b.
Definition ms_resolution (t : dt) : Prop := to_us t mod 1000 = 0.
