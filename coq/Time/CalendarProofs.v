(* Proofs about Time/Calendar.v: the Gregorian day-number functions are
   mutually inverse and monotone for ALL integer years (an exhaustive
   vm_compute sweep of one 400-year cycle lifted by periodicity), to_us/of_us
   are mutually inverse, and the year range 1..9999 is the epoch-microsecond
   range MIN_US..MAX_US. *)
From Coq Require Import ZArith List Bool Lia ZifyBool ZifyN ZifyNat.
From Labella Require Import Time.Calendar.
Import ListNotations.
Ltac Zify.zify_post_hook ::= Z.to_euclidean_division_equations.
Open Scope Z_scope.

(* ---------- the bounded quantifier --------------------------------------- *)
Lemma forall_range_inv f lo n :
  let p := N.iter n (fun p : bool * Z => let (b, i) := p in (b && f i, i + 1)) (true, lo) in
  snd p = lo + Z.of_N n /\
  (fst p = true -> forall i, lo <= i < lo + Z.of_N n -> f i = true).
Proof.
  induction n as [|n IH] using N.peano_ind.
  - cbn. split; [lia|]. intros _ i Hi. lia.
  - rewrite N.iter_succ.
    destruct (N.iter n _ (true, lo)) as [b j] eqn:E. cbn [fst snd] in *.
    destruct IH as [Hj Hb]. cbn [fst snd]. split; [lia|].
    intros Hbf i Hi. apply andb_true_iff in Hbf. destruct Hbf as [Hb1 Hf].
    destruct (Z.eq_dec i j) as [->|Hne]; [exact Hf|].
    apply Hb; [exact Hb1|lia].
Qed.

Lemma forall_range_spec f lo n :
  forall_range f lo n = true -> forall i, lo <= i < lo + Z.of_N n -> f i = true.
Proof.
  unfold forall_range. intros H. exact (proj2 (forall_range_inv f lo n) H).
Qed.

(* ---------- periodicity (400 years = 4800 months = 146097 days) ---------- *)
Lemma is_leap_period y k : is_leap (y + 400 * k) = is_leap y.
Proof.
  unfold is_leap.
  replace ((y + 400 * k) mod 4) with (y mod 4) by lia.
  replace ((y + 400 * k) mod 100) with (y mod 100) by lia.
  replace ((y + 400 * k) mod 400) with (y mod 400) by lia.
  reflexivity.
Qed.

Lemma days_in_month_period y m k : days_in_month (y + 400 * k) m = days_in_month y m.
Proof. unfold days_in_month. rewrite is_leap_period. reflexivity. Qed.

Lemma days_from_civil_period y m d k :
  days_from_civil (y + 400 * k) m d = days_from_civil y m d + 146097 * k.
Proof.
  unfold days_from_civil.
  set (y1 := if m <=? 2 then y + 400 * k - 1 else y + 400 * k).
  set (y0 := if m <=? 2 then y - 1 else y).
  assert (E : y1 = y0 + 400 * k) by (subst y1 y0; destruct (m <=? 2); lia).
  rewrite E. clearbody y0. clear E y1.
  replace ((y0 + 400 * k) / 400) with (y0 / 400 + k) by lia.
  replace (y0 + 400 * k - (y0 / 400 + k) * 400) with (y0 - y0 / 400 * 400) by lia.
  lia.
Qed.

Lemma first_of_month_period i k :
  first_of_month (i + 4800 * k) = first_of_month i + 146097 * k.
Proof.
  unfold first_of_month.
  replace ((i + 4800 * k) / 12) with (i / 12 + 400 * k) by lia.
  replace ((i + 4800 * k) mod 12) with (i mod 12) by lia.
  apply days_from_civil_period.
Qed.

Lemma month_len_period i k : month_len (i + 4800 * k) = month_len i.
Proof.
  unfold month_len.
  replace ((i + 4800 * k) / 12) with (i / 12 + 400 * k) by lia.
  replace ((i + 4800 * k) mod 12) with (i mod 12) by lia.
  apply days_in_month_period.
Qed.

(* ---------- sweep 1: consecutive months ---------------------------------- *)
Definition month_step_ok (i : Z) : bool :=
  first_of_month (i + 1) =? first_of_month i + month_len i.

Lemma month_sweep : forall_range month_step_ok 0 4800 = true.
Proof. vm_compute. reflexivity. Qed.

Lemma first_of_month_succ i : first_of_month (i + 1) = first_of_month i + month_len i.
Proof.
  pose proof (forall_range_spec _ _ _ month_sweep (i mod 4800)) as H.
  assert (Hr : 0 <= i mod 4800 < 0 + Z.of_N 4800) by lia.
  specialize (H Hr). unfold month_step_ok in H. apply Z.eqb_eq in H.
  replace i with (i mod 4800 + 4800 * (i / 4800)) at 2 3 by lia.
  replace (i + 1) with (i mod 4800 + 1 + 4800 * (i / 4800)) by lia.
  rewrite !first_of_month_period, month_len_period. lia.
Qed.

Lemma days_in_month_bounds y m : 28 <= days_in_month y m <= 31.
Proof.
  unfold days_in_month. destruct (m =? 2); [destruct (is_leap y); lia|].
  destruct ((m =? 4) || (m =? 6) || (m =? 9) || (m =? 11)); lia.
Qed.

Lemma month_len_bounds i : 28 <= month_len i <= 31.
Proof. apply days_in_month_bounds. Qed.

Lemma first_of_month_grow_nat i (n : nat) :
  first_of_month i + 28 * Z.of_nat n <= first_of_month (i + Z.of_nat n)
  <= first_of_month i + 31 * Z.of_nat n.
Proof.
  induction n as [|n IH].
  - replace (i + Z.of_nat 0) with i by lia. lia.
  - replace (i + Z.of_nat (S n)) with (i + Z.of_nat n + 1) by lia.
    rewrite first_of_month_succ. pose proof (month_len_bounds (i + Z.of_nat n)). lia.
Qed.

Lemma first_of_month_grow i j : i <= j ->
  first_of_month i + 28 * (j - i) <= first_of_month j <= first_of_month i + 31 * (j - i).
Proof.
  intros H. pose proof (first_of_month_grow_nat i (Z.to_nat (j - i))) as G.
  replace (Z.of_nat (Z.to_nat (j - i))) with (j - i) in G by lia.
  replace (i + (j - i)) with j in G by lia. exact G.
Qed.

Lemma first_of_month_lt i j : i < j -> first_of_month i < first_of_month j.
Proof. intros H. pose proof (first_of_month_grow i j). lia. Qed.

Lemma first_of_month_le i j : i <= j -> first_of_month i <= first_of_month j.
Proof. intros H. pose proof (first_of_month_grow i j). lia. Qed.

Lemma first_of_month_lt_inv i j : first_of_month i < first_of_month j -> i < j.
Proof.
  intros H. destruct (Z_lt_le_dec i j) as [L|L]; [exact L|].
  pose proof (first_of_month_le j i L). lia.
Qed.

(* ---------- a date is its month's first day plus (d - 1) ------------------ *)
Lemma month_index_div y m : 1 <= m <= 12 -> (12 * y + m - 1) / 12 = y.
Proof. lia. Qed.
Lemma month_index_mod y m : 1 <= m <= 12 -> (12 * y + m - 1) mod 12 + 1 = m.
Proof. lia. Qed.

Lemma days_from_civil_day y m d : days_from_civil y m d = days_from_civil y m 1 + d - 1.
Proof. unfold days_from_civil. destruct (m <=? 2); destruct (m >? 2); lia. Qed.

Lemma days_from_civil_fom y m d : 1 <= m <= 12 ->
  days_from_civil y m d = first_of_month (12 * y + m - 1) + d - 1.
Proof.
  intros Hm. unfold first_of_month.
  rewrite month_index_div, month_index_mod by exact Hm.
  apply days_from_civil_day.
Qed.

Lemma month_len_index y m : 1 <= m <= 12 -> month_len (12 * y + m - 1) = days_in_month y m.
Proof.
  intros Hm. unfold month_len. rewrite month_index_div, month_index_mod by exact Hm.
  reflexivity.
Qed.

(* ---------- sweep 2: every day of one 400-year era ----------------------- *)
Definition civil_ok (doe : Z) : bool :=
  let '(y, m, d) := civil_of_era_doe 0 doe in
  (1 <=? m) && (m <=? 12) && (1 <=? d) && (d <=? days_in_month y m) &&
  (days_from_civil y m d + 719468 =? doe).

Lemma civil_sweep : forall_range civil_ok 0 146097 = true.
Proof. vm_compute. reflexivity. Qed.

Lemma civil_of_era_doe_shift era doe :
  civil_of_era_doe era doe =
  let '(y, m, d) := civil_of_era_doe 0 doe in (y + 400 * era, m, d).
Proof.
  unfold civil_of_era_doe. cbv zeta.
  match goal with |- context [if ?c then _ else _] => destruct c end;
  match goal with |- context [if ?c then _ else _] => destruct c end;
  f_equal; f_equal; lia.
Qed.

Definition md_ok (y m d : Z) : Prop := 1 <= m <= 12 /\ 1 <= d <= days_in_month y m.

Lemma civil_from_days_spec n : forall y m d,
  civil_from_days n = (y, m, d) -> md_ok y m d /\ days_from_civil y m d = n.
Proof.
  intros y m d H. unfold civil_from_days in H. cbv zeta in H.
  rewrite civil_of_era_doe_shift in H.
  set (doe := (n + 719468) mod 146097) in *.
  set (era := (n + 719468) / 146097) in *.
  pose proof (forall_range_spec _ _ _ civil_sweep doe) as S.
  assert (Hr : 0 <= doe < 0 + Z.of_N 146097) by (subst doe; lia).
  specialize (S Hr). unfold civil_ok in S.
  destruct (civil_of_era_doe 0 doe) as [[y0 m0] d0].
  assert (Ey : y = y0 + 400 * era) by congruence.
  assert (Em : m = m0) by congruence. assert (Ed : d = d0) by congruence.
  clear H. subst y m d.
  rewrite !andb_true_iff in S. destruct S as [[[[S1 S2] S3] S4] S5].
  unfold md_ok.
  rewrite days_in_month_period, days_from_civil_period.
  subst doe era. lia.
Qed.

(* ---------- uniqueness, hence the other round trip ----------------------- *)
Lemma days_from_civil_inj y m d y' m' d' :
  md_ok y m d -> md_ok y' m' d' ->
  days_from_civil y m d = days_from_civil y' m' d' -> y = y' /\ m = m' /\ d = d'.
Proof.
  intros [Hm Hd] [Hm' Hd'] E.
  rewrite (days_from_civil_fom y m d Hm), (days_from_civil_fom y' m' d' Hm') in E.
  rewrite <- (month_len_index y m Hm) in Hd.
  rewrite <- (month_len_index y' m' Hm') in Hd'.
  set (i := 12 * y + m - 1) in *. set (j := 12 * y' + m' - 1) in *.
  assert (i = j) as Hij.
  { destruct (Z.lt_trichotomy i j) as [L|[L|L]]; [|exact L|].
    - pose proof (first_of_month_le (i + 1) j ltac:(lia)) as G.
      rewrite first_of_month_succ in G. lia.
    - pose proof (first_of_month_le (j + 1) i ltac:(lia)) as G.
      rewrite first_of_month_succ in G. lia. }
  rewrite Hij in E. subst i j. lia.
Qed.

Lemma civil_from_days_from_civil y m d : md_ok y m d ->
  civil_from_days (days_from_civil y m d) = (y, m, d).
Proof.
  intros H. destruct (civil_from_days (days_from_civil y m d)) as [[y' m'] d'] eqn:E.
  apply civil_from_days_spec in E. destruct E as [H' E].
  destruct (days_from_civil_inj _ _ _ _ _ _ H' H E) as (-> & -> & ->). reflexivity.
Qed.

(* order of dates = order of day numbers *)
Lemma days_from_civil_month_bounds y m d : md_ok y m d ->
  first_of_month (12 * y + m - 1) <= days_from_civil y m d < first_of_month (12 * y + m).
Proof.
  intros [Hm Hd]. rewrite (days_from_civil_fom y m d Hm).
  assert (E : first_of_month (12 * y + m) =
              first_of_month (12 * y + m - 1) + month_len (12 * y + m - 1))
    by (rewrite <- first_of_month_succ; f_equal; lia).
  rewrite E, month_len_index by exact Hm. lia.
Qed.

(* ---------- the obvious calendar: year lengths --------------------------- *)
Definition year_len (y : Z) : Z := if is_leap y then 366 else 365.
Definition year_step_ok (y : Z) : bool :=
  days_from_civil (y + 1) 1 1 =? days_from_civil y 1 1 + year_len y.
Lemma year_sweep : forall_range year_step_ok 0 400 = true.
Proof. vm_compute. reflexivity. Qed.

Lemma first_of_year_succ y :
  days_from_civil (y + 1) 1 1 = days_from_civil y 1 1 + year_len y.
Proof.
  pose proof (forall_range_spec _ _ _ year_sweep (y mod 400)) as H.
  assert (Hr : 0 <= y mod 400 < 0 + Z.of_N 400) by lia.
  specialize (H Hr). unfold year_step_ok in H. apply Z.eqb_eq in H.
  replace y with (y mod 400 + 400 * (y / 400)) at 2 3 by lia.
  replace (y + 1) with (y mod 400 + 1 + 400 * (y / 400)) by lia.
  unfold year_len. rewrite !days_from_civil_period, is_leap_period.
  unfold year_len in H. lia.
Qed.

Lemma epoch_is_zero : days_from_civil 1970 1 1 = 0.
Proof. reflexivity. Qed.

(* ---------- datetime <-> microseconds ------------------------------------ *)
Lemma wf_unfold t : wf t <->
  md_ok (dt_y t) (dt_mo t) (dt_d t) /\ 0 <= dt_h t < 24 /\ 0 <= dt_mi t < 60 /\
  0 <= dt_s t < 60 /\ 0 <= dt_us t < 1000000.
Proof. unfold wf, wfb, md_ok. rewrite !andb_true_iff. lia. Qed.

Lemma valid_unfold t : valid t <-> 1 <= dt_y t <= 9999 /\ wf t.
Proof. unfold valid, validb, wf. rewrite !andb_true_iff, !Z.leb_le. tauto. Qed.

Lemma valid_wf t : valid t -> wf t.
Proof. intros H. apply valid_unfold in H. tauto. Qed.

Lemma to_us_days t : wf t ->
  to_us t / 86400000000 = days_from_civil (dt_y t) (dt_mo t) (dt_d t) /\
  to_us t mod 86400000000 =
    ((dt_h t * 60 + dt_mi t) * 60 + dt_s t) * 1000000 + dt_us t.
Proof.
  intros H. apply wf_unfold in H. destruct H as (_ & Hh & Hmi & Hs & Hus).
  unfold to_us. set (n := days_from_civil _ _ _). lia.
Qed.

Theorem of_us_to_us t : wf t -> of_us (to_us t) = t.
Proof.
  intros H. destruct (to_us_days t H) as [Hd Hr].
  unfold of_us. cbv zeta. rewrite Hd, Hr.
  apply wf_unfold in H. destruct H as (Hmd & Hh & Hmi & Hs & Hus).
  rewrite civil_from_days_from_civil by exact Hmd.
  destruct t as [y m d h mi s us]. cbn [dt_y dt_mo dt_d dt_h dt_mi dt_s dt_us] in *.
  f_equal; lia.
Qed.

Lemma of_us_fields z : exists y m d,
  civil_from_days (z / 86400000000) = (y, m, d) /\
  of_us z = mkdt y m d ((z mod 86400000000) / 3600000000)
                 (((z mod 86400000000) / 60000000) mod 60)
                 (((z mod 86400000000) / 1000000) mod 60)
                 ((z mod 86400000000) mod 1000000).
Proof.
  unfold of_us. cbv zeta.
  destruct (civil_from_days (z / 86400000000)) as [[y m] d].
  exists y, m, d. split; reflexivity.
Qed.

Theorem of_us_wf z : wf (of_us z).
Proof.
  destruct (of_us_fields z) as (y & m & d & E & ->).
  apply civil_from_days_spec in E. destruct E as [Hmd _].
  apply wf_unfold. cbn [dt_y dt_mo dt_d dt_h dt_mi dt_s dt_us].
  split; [exact Hmd|]. lia.
Qed.

Theorem to_us_of_us z : to_us (of_us z) = z.
Proof.
  destruct (of_us_fields z) as (y & m & d & E & ->).
  apply civil_from_days_spec in E. destruct E as [_ E].
  unfold to_us. cbn [dt_y dt_mo dt_d dt_h dt_mi dt_s dt_us]. rewrite E. lia.
Qed.

Theorem to_us_inj a b : wf a -> wf b -> to_us a = to_us b -> a = b.
Proof.
  intros Ha Hb E. rewrite <- (of_us_to_us a Ha), <- (of_us_to_us b Hb), E. reflexivity.
Qed.

(* ---------- the year range is the microsecond range ---------------------- *)
Lemma to_us_year_bounds t : wf t ->
  first_of_month (12 * dt_y t) * 86400000000 <= to_us t
  < first_of_month (12 * dt_y t + 12) * 86400000000.
Proof.
  intros H. destruct (to_us_days t H) as [Hd Hr].
  apply wf_unfold in H. destruct H as (Hmd & Hh & Hmi & Hs & Hus).
  pose proof (days_from_civil_month_bounds _ _ _ Hmd) as B.
  destruct Hmd as [Hm _].
  pose proof (first_of_month_le (12 * dt_y t) (12 * dt_y t + dt_mo t - 1) ltac:(lia)).
  pose proof (first_of_month_le (12 * dt_y t + dt_mo t) (12 * dt_y t + 12) ltac:(lia)).
  lia.
Qed.

Lemma fom_min : first_of_month 12 * 86400000000 = MIN_US.
Proof. reflexivity. Qed.
Lemma fom_max : first_of_month 120000 * 86400000000 = MAX_US + 1.
Proof. reflexivity. Qed.

Theorem year_range_iff t : wf t ->
  (1 <= dt_y t <= 9999 <-> MIN_US <= to_us t <= MAX_US).
Proof.
  intros H. pose proof (to_us_year_bounds t H) as B.
  pose proof fom_min as Emin. pose proof fom_max as Emax.
  split.
  - intros [Hlo Hhi].
    pose proof (first_of_month_le 12 (12 * dt_y t) ltac:(lia)).
    pose proof (first_of_month_le (12 * dt_y t + 12) 120000 ltac:(lia)).
    lia.
  - intros [Hlo Hhi]. split.
    + destruct (Z_lt_le_dec (dt_y t) 1) as [L|L]; [|exact L]. exfalso.
      pose proof (first_of_month_le (12 * dt_y t + 12) 12 ltac:(lia)). lia.
    + destruct (Z_lt_le_dec 9999 (dt_y t)) as [L|L]; [|exact L]. exfalso.
      pose proof (first_of_month_le 120000 (12 * dt_y t) ltac:(lia)). lia.
Qed.

Lemma in_range_iff z : in_range z = true <-> MIN_US <= z <= MAX_US.
Proof. unfold in_range. rewrite andb_true_iff. lia. Qed.

Theorem of_us_valid z : in_range z = true -> valid (of_us z).
Proof.
  intros H. apply in_range_iff in H. apply valid_unfold.
  split; [|apply of_us_wf].
  apply (year_range_iff _ (of_us_wf z)). rewrite to_us_of_us. exact H.
Qed.

Theorem valid_in_range t : valid t -> in_range (to_us t) = true.
Proof.
  intros H. apply valid_unfold in H. destruct H as [Hy Hw].
  apply in_range_iff. apply (year_range_iff t Hw). exact Hy.
Qed.

Lemma of_us_chk_ok z r : of_us_chk z = Ok r -> valid r /\ to_us r = z.
Proof.
  unfold of_us_chk. destruct (in_range z) eqn:E; [|discriminate].
  intros H. injection H as <-. split; [apply of_us_valid; exact E|apply to_us_of_us].
Qed.

Lemma of_us_chk_nofuel z : of_us_chk z <> NoFuel.
Proof. unfold of_us_chk. destruct (in_range z); discriminate. Qed.

Lemma of_us_chk_in_range z : in_range z = true -> of_us_chk z = Ok (of_us z).
Proof. unfold of_us_chk. intros ->. reflexivity. Qed.

Lemma chk_ok t r : chk t = Ok r -> r = t /\ valid t.
Proof. unfold chk. destruct (validb t) eqn:E; [|discriminate]. intros H. injection H as <-. split; [reflexivity|exact E]. Qed.

Lemma chk_valid t : valid t -> chk t = Ok t.
Proof. unfold chk, valid. intros ->. reflexivity. Qed.

Lemma chk_nofuel t : chk t <> NoFuel.
Proof. unfold chk. destruct (validb t); discriminate. Qed.

(* ---------- Python's field-wise comparison is the order of to_us --------- *)
Definition lex_lt (a b : dt) : Prop :=
  dt_y a < dt_y b \/ (dt_y a = dt_y b /\ (dt_mo a < dt_mo b \/ (dt_mo a = dt_mo b /\
  (dt_d a < dt_d b \/ (dt_d a = dt_d b /\ (dt_h a < dt_h b \/ (dt_h a = dt_h b /\
  (dt_mi a < dt_mi b \/ (dt_mi a = dt_mi b /\ (dt_s a < dt_s b \/ (dt_s a = dt_s b /\
   dt_us a < dt_us b))))))))))).

Lemma day_number_lex a b : wf a -> wf b ->
  (dt_y a < dt_y b \/ (dt_y a = dt_y b /\ (dt_mo a < dt_mo b \/ (dt_mo a = dt_mo b /\ dt_d a < dt_d b)))) ->
  days_from_civil (dt_y a) (dt_mo a) (dt_d a) < days_from_civil (dt_y b) (dt_mo b) (dt_d b).
Proof.
  intros Ha Hb H. apply wf_unfold in Ha. apply wf_unfold in Hb.
  destruct Ha as (Ma & _). destruct Hb as (Mb & _).
  pose proof (days_from_civil_month_bounds _ _ _ Ma) as Ba.
  pose proof (days_from_civil_month_bounds _ _ _ Mb) as Bb.
  destruct Ma as [Hma Hda]. destruct Mb as [Hmb Hdb].
  destruct (Z.eq_dec (12 * dt_y a + dt_mo a) (12 * dt_y b + dt_mo b)) as [E|NE].
  - assert (dt_y a = dt_y b /\ dt_mo a = dt_mo b) as [Ey Em] by lia.
    rewrite (days_from_civil_day (dt_y a)), (days_from_civil_day (dt_y b)), Ey, Em. lia.
  - pose proof (first_of_month_le (12 * dt_y a + dt_mo a) (12 * dt_y b + dt_mo b - 1) ltac:(lia)).
    lia.
Qed.

Theorem to_us_lt_lex a b : wf a -> wf b -> lex_lt a b -> to_us a < to_us b.
Proof.
  intros Ha Hb H.
  destruct (to_us_days a Ha) as [Da Ra]. destruct (to_us_days b Hb) as [Db Rb].
  pose proof (day_number_lex a b Ha Hb) as L.
  apply wf_unfold in Ha. apply wf_unfold in Hb.
  destruct Ha as (_ & Hha & Hmia & Hsa & Husa). destruct Hb as (_ & Hhb & Hmib & Hsb & Husb).
  unfold lex_lt in H. unfold to_us.
  set (na := days_from_civil (dt_y a) (dt_mo a) (dt_d a)) in *.
  set (nb := days_from_civil (dt_y b) (dt_mo b) (dt_d b)) in *.
  assert (na < nb \/ (na = nb /\ (dt_h a < dt_h b \/ (dt_h a = dt_h b /\
          (dt_mi a < dt_mi b \/ (dt_mi a = dt_mi b /\ (dt_s a < dt_s b \/ (dt_s a = dt_s b /\
           dt_us a < dt_us b)))))))) as C.
  { destruct H as [H|[Ey [H|[Em [H|[Ed H]]]]]].
    - left. apply L. lia.
    - left. apply L. lia.
    - left. apply L. lia.
    - right. split; [|exact H]. subst na nb. rewrite Ey, Em, Ed. reflexivity. }
  clear L H Da Ra Db Rb. lia.
Qed.

(* ---------- weekday ------------------------------------------------------- *)
Lemma isoweekday_range n : 1 <= isoweekday_of_days n <= 7.
Proof. unfold isoweekday_of_days. lia. Qed.

Lemma isoweekday_succ n :
  isoweekday_of_days (n + 1) = isoweekday_of_days n mod 7 + 1.
Proof. unfold isoweekday_of_days. lia. Qed.

(* anchors: 1970-01-01 Thursday, 2000-01-01 Saturday, 2023-01-01 Sunday *)
Lemma isoweekday_anchors :
  isoweekday (mkdt 1970 1 1 0 0 0 0) = 4 /\ isoweekday (mkdt 2000 1 1 0 0 0 0) = 6 /\
  isoweekday (mkdt 2023 1 1 12 0 0 0) = 7.
Proof. vm_compute. repeat split. Qed.

Lemma dt_min_max : to_us dt_min = MIN_US /\ to_us dt_max = MAX_US /\ valid dt_min /\ valid dt_max.
Proof. vm_compute. repeat split. Qed.
