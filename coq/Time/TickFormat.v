(* Tick texts (the last clause of property C07), as lists of code points.

   (a) TimeScale.tickFormat() = mytimeformat (labella/scale.py:280-299): a
       seven-way case split on the fields of the instant, each branch a
       strftime call.  strftime is modelled for the C locale (English month and
       weekday names, what the implementation runs under), zero padding, the
       12-hour clock of %I and AM/PM of %p exactly as CPython/glibc give them.
       %Y is modelled for years 1000..9999 only (four digits); glibc does not
       zero-pad smaller years, they are outside the documented domain
       (1900..2200).
   (b) LinearScale.tickFormat() = d3_scale_linearTickFormat (scale.py:128-134):
       "{:.nf}".format(x) with n = max(0, precision(step)) decimals
       (Scale/Ticks.v: decimals, fmt).  CPython formats the exact binary value
       of the double, rounding half to even at the n-th decimal (fmt n x =
       pyround (x * 10^n)), prints a '-' for every negative x (also when the
       rounded digits are all zero: "-0.0") and no '.' when n = 0.
       A negative ZERO double would print "-0.0" as well.  It has no counterpart
       in Q and cannot occur here: drange (scale.py:19-23) starts at
       math.ceil(lo / step) * step, a Python int times a positive float, i.e.
       +0.0 when zero, and continues with r += step, where x + (-x) is +0.0 in
       round-to-nearest.  What CAN occur is a tiny negative NON-zero double
       where the exact tick is 0 (accumulated rounding of r += step); the exact
       model prints "0.0" there and the tie counts "-0.0" as ambiguous.

   Model only: no proofs here. *)
From Coq Require Import ZArith NArith QArith List Bool Decimal DecimalN.
From Labella Require Import Time.Calendar Scale.Ticks.
Import ListNotations.
Open Scope Z_scope.

(* ---------- decimal digits --------------------------------------------------------- *)
Fixpoint uint_codes (u : Decimal.uint) : list N :=
  match u with
  | Nil => []
  | D0 r => 48%N :: uint_codes r | D1 r => 49%N :: uint_codes r | D2 r => 50%N :: uint_codes r
  | D3 r => 51%N :: uint_codes r | D4 r => 52%N :: uint_codes r | D5 r => 53%N :: uint_codes r
  | D6 r => 54%N :: uint_codes r | D7 r => 55%N :: uint_codes r | D8 r => 56%N :: uint_codes r
  | D9 r => 57%N :: uint_codes r
  end.

(* str(n) for a natural number (no leading zeros; "0" for 0) *)
Definition nat_digits (z : Z) : list N := uint_codes (N.to_uint (Z.to_N z)).

(* exactly w digits, zero padded ("%02d" and the fraction field of "%.nf"):
   the w low decimal digits of x, most significant first *)
Fixpoint digits_w (w : nat) (x : Z) : list N :=
  match w with
  | O => []
  | S w' => digits_w w' (x / 10) ++ [Z.to_N (48 + x mod 10)]
  end.
Definition d2 (z : Z) : list N := digits_w 2 z.

(* ---------- (a) mytimeformat ----------------------------------------------------------- *)
Definition month_name (m : Z) : list N :=
  match m with
  | 1 => [74; 97; 110; 117; 97; 114; 121]%N            (* January *)
  | 2 => [70; 101; 98; 114; 117; 97; 114; 121]%N       (* February *)
  | 3 => [77; 97; 114; 99; 104]%N                      (* March *)
  | 4 => [65; 112; 114; 105; 108]%N                    (* April *)
  | 5 => [77; 97; 121]%N                               (* May *)
  | 6 => [74; 117; 110; 101]%N                         (* June *)
  | 7 => [74; 117; 108; 121]%N                         (* July *)
  | 8 => [65; 117; 103; 117; 115; 116]%N               (* August *)
  | 9 => [83; 101; 112; 116; 101; 109; 98; 101; 114]%N (* September *)
  | 10 => [79; 99; 116; 111; 98; 101; 114]%N           (* October *)
  | 11 => [78; 111; 118; 101; 109; 98; 101; 114]%N     (* November *)
  | _ => [68; 101; 99; 101; 109; 98; 101; 114]%N       (* December *)
  end.
(* %b: the first three letters (true of all twelve C-locale names) *)
Definition month_abbr (m : Z) : list N := firstn 3 (month_name m).

(* %a by ISO weekday 1..7 *)
Definition weekday_abbr (iso : Z) : list N :=
  match iso with
  | 1 => [77; 111; 110]%N | 2 => [84; 117; 101]%N | 3 => [87; 101; 100]%N | 4 => [84; 104; 117]%N
  | 5 => [70; 114; 105]%N | 6 => [83; 97; 116]%N | _ => [83; 117; 110]%N
  end.

(* %I: hour on the 12-hour clock, 01..12;  %p: AM / PM *)
Definition hour12 (h : Z) : Z := if h mod 12 =? 0 then 12 else h mod 12.
Definition ampm (h : Z) : list N := if h <? 12 then [65; 77]%N else [80; 77]%N.

Definition SP : N := 32%N.
Definition COLON : N := 58%N.

Definition time_format (t : dt) : list N :=
  if (dt_d t =? 1) && (dt_mo t =? 1) then nat_digits (dt_y t)                           (* %Y *)
  else if dt_d t =? 1 then month_name (dt_mo t)                                        (* %B *)
  else if (isoweekday t =? 7) && (dt_h t =? 0) && (dt_mi t =? 0) && (dt_s t =? 0)
       then month_abbr (dt_mo t) ++ [SP] ++ d2 (dt_d t)                                (* %b %d *)
  else if (dt_h t =? 0) && (dt_mi t =? 0) && (dt_s t =? 0)
       then weekday_abbr (isoweekday t) ++ [SP] ++ d2 (dt_d t)                         (* %a %d *)
  else if (dt_mi t =? 0) && (dt_s t =? 0)
       then d2 (hour12 (dt_h t)) ++ [SP] ++ ampm (dt_h t)                              (* %I %p *)
  else if dt_s t =? 0 then d2 (dt_h t) ++ [COLON] ++ d2 (dt_mi t)                      (* %H:%M *)
  else [COLON] ++ d2 (dt_s t).                                                         (* :%S *)

(* which branch: 0 year .. 6 seconds (used by statements and by the tie's generator check) *)
Definition time_format_branch (t : dt) : Z :=
  if (dt_d t =? 1) && (dt_mo t =? 1) then 0
  else if dt_d t =? 1 then 1
  else if (isoweekday t =? 7) && (dt_h t =? 0) && (dt_mi t =? 0) && (dt_s t =? 0) then 2
  else if (dt_h t =? 0) && (dt_mi t =? 0) && (dt_s t =? 0) then 3
  else if (dt_mi t =? 0) && (dt_s t =? 0) then 4
  else if dt_s t =? 0 then 5
  else 6.

(* ---------- (b) "{:.nf}".format(x) -------------------------------------------------------- *)
Definition MINUS : N := 45%N.
Definition DOT : N := 46%N.

(* the digits of |z| / 10^n with n decimals, z the rounded scaled integer *)
Definition fixed_digits (n : Z) (z : Z) : list N :=
  let a := Z.abs z in
  let p := 10 ^ n in
  nat_digits (a / p) ++
  (if n <=? 0 then [] else DOT :: digits_w (Z.to_nat n) (a mod p)).

Definition fixed_format (n : Z) (x : Q) : list N :=
  (if Qlt_le_dec x 0 then [MINUS] else []) ++ fixed_digits n (fmt n x).

(* d3_scale_linearTickFormat(domain = [a, b], m): decimals from the tick step *)
Definition lin_tick_format (a b : Q) (m : Z) (x : Q) : list N :=
  fixed_format (decimals (dom_step a b m)) x.
