(* Property C18: the process's local time zone as an explicit parameter.

   The process environment is modelled by  tz : Z -> Z,  the offset of local
   time from UTC (in microseconds) as a function of the UTC instant - an
   ARBITRARY function, which covers daylight-saving shifts and fractional-hour
   offsets.  A Python function that consults the local zone
   (datetime.timestamp(), datetime.fromtimestamp(), time.mktime(), ...)
   is a function of tz; one that does not, is not.

   The code as it is NOW (labella/d3_time.py:18-20, labella/scale.py:13-14):
       _EPOCH   = datetime(1970, 1, 1)
       milli2dt = lambda x: _EPOCH + timedelta(milliseconds=x)
       dt2milli = lambda x: (x - _EPOCH) / timedelta(milliseconds=1)
   Arithmetic on naive datetimes and timedeltas never consults the zone, so
   the faithful model of these conversions ignores `tz`.  We still give every
   entry point the parameter, so that the independence statement can be
   written down; its proof is `reflexivity`.

   SAID PLAINLY: C18_independent is only as strong as the claim "the code
   calls no zone-dependent service", which is a fact about the Python runtime
   and the source text, not about logic.  That claim is what the tie
   establishes on every run (harness/props/c18.py): (i) a fail-closed `ast`
   scan of labella/*.py for zone-dependent names, (ii) every case is executed
   under five TZ values and the outputs must be identical and equal to the
   zone-free model.  The OS zone database is not modelled.
   The zone-DEPENDENT conversions the code used before the repair are in
   History/TimeOld.v with the witness C18_refuted_old.

   Model only: no proofs here. *)
From Coq Require Import ZArith QArith List Bool.
From Labella Require Import Time.Calendar Time.Interval Time.TimeScale Time.TimeTicks Time.TimeNice.
Import ListNotations.
Open Scope Z_scope.

(* the conversions, as functions of the environment *)
Definition dt2us_now (tz : Z -> Z) (t : dt) : Z := to_us t.
Definition us2dt_now (tz : Z -> Z) (z : Z) : res dt := of_us_chk z.

(* the entry points observed by the tie: calendar rounding (d3_time[u].floor /
   ceil / round / offset / range) and the time scale (mapped positions, invert,
   domain, ticks, nice) *)
Inductive time_call : Type :=
| CFloor (u : unit_id) (t : dt)
| CCeil (u : unit_id) (t : dt)
| CRound (u : unit_id) (t : dt)
| COffset (u : unit_id) (t : dt) (k : Z)
| CRange (u : unit_id) (t0 t1 : dt) (step : Z)
| CScale (s : tscale) (t : dt)
| CInvert (s : tscale) (y : Q)
| CDomain (s : tscale)
| CTicks (d0 d1 : dt) (m : Z)
| CNice (d0 d1 : dt) (m : Z).

Inductive time_result : Type :=
| RInstant (r : res dt)
| RList (r : res (list dt))
| RPos (y : Q)
| RPair (a b : res dt)
| RDomain (r : res (dt * dt)).

(* Time/Interval.v, TimeScale.v, TimeTicks.v, TimeNice.v are written with
   to_us / of_us_chk, i.e. with dt2us_now tz and us2dt_now tz for whatever tz:
   the parameter is not used *)
Definition time_api (tz : Z -> Z) (c : time_call) : time_result :=
  match c with
  | CFloor u t => RInstant (iv_floor (interval_of u) t)
  | CCeil u t => RInstant (iv_ceil (interval_of u) t)
  | CRound u t => RInstant (iv_round (interval_of u) t)
  | COffset u t k => RInstant (iv_offset (interval_of u) t k)
  | CRange u t0 t1 st => RList (iv_range (interval_of u) t0 t1 st)
  | CScale s t => RPos (ts_apply s t)
  | CInvert s y => RInstant (ts_invert s y)
  | CDomain s => RPair (fst (ts_domain s)) (snd (ts_domain s))
  | CTicks d0 d1 m => RList (ts_ticks d0 d1 m)
  | CNice d0 d1 m => RDomain (ts_nice d0 d1 m)
  end.

(* the zone in which nothing is shifted *)
Definition utc : Z -> Z := fun _ => 0.
