(* Model of labella/scale.py: TimeScale's mapping part (scale.py:383-400,
   482-507) over exact rationals.  Model only: no proofs here.

   TimeScale delegates to an inner LinearScale on epoch milliseconds:
     domain([t0, t1])  ->  self._linear.domain([dt2milli t0, dt2milli t1])
     __call__(t)       ->  self._linear(dt2milli(t))
     invert(y)         ->  milli2dt(self._linear.invert(y))
   and the linear scale is d3_scale_bilinear (scale.py:27-50):
     u = uninterpolate(d0, d1) = (x - d0) / (d1 - d0)   (0 if d1 == d0)
     i = interpolate(r0, r1)   = r0 * (1 - u) + r1 * u
   `lin` below is this package's own small copy of that formula (the linear
   scale itself, its ticks and nice belong to coq/Scale/, another package).
   Doubles are modelled by exact rationals (DESIGN.md section 4). *)
From Coq Require Import ZArith QArith Qround List Bool.
From Labella Require Import Time.Calendar.
Import ListNotations.
Open Scope Q_scope.

(* d3_scale_bilinear(domain=[a,b], range=[r0,r1], d3_uninterpolateNumber, d3_interpolateNumber) *)
Definition lin (a b r0 r1 x : Q) : Q :=
  let u := if Qeq_bool b a then 0 else (x - a) / (b - a) in
  r0 * (1 - u) + r1 * u.

(* dt2milli: (x - _EPOCH) / timedelta(milliseconds=1): microseconds / 1000 *)
Definition to_ms (t : dt) : Q := to_us t # 1000.

Record tscale : Type := mk_tscale { ts_d0 : dt; ts_d1 : dt; ts_r0 : Q; ts_r1 : Q }.

(* TimeScale.__call__ *)
Definition ts_apply (s : tscale) (t : dt) : Q :=
  lin (to_ms (ts_d0 s)) (to_ms (ts_d1 s)) (ts_r0 s) (ts_r1 s) (to_ms t).

(* self._linear.invert(y): bilinear(range, domain), in milliseconds *)
Definition ts_invert_ms (s : tscale) (y : Q) : Q :=
  lin (ts_r0 s) (ts_r1 s) (to_ms (ts_d0 s)) (to_ms (ts_d1 s)) y.

(* timedelta(milliseconds=x) rounds x to a whole number of microseconds,
   half to even (CPython's timedelta constructor) *)
Definition qround_half_even (q : Q) : Z :=
  let f := Qfloor q in
  match Qcompare (q - inject_Z f) (1 # 2) with
  | Lt => f
  | Gt => (f + 1)%Z
  | Eq => if Z.even f then f else (f + 1)%Z
  end.

(* TimeScale.invert: milli2dt(...) *)
Definition ts_invert (s : tscale) (y : Q) : res dt :=
  of_us_chk (qround_half_even (ts_invert_ms s y * 1000)).

(* TimeScale.domain(): list(map(milli2dt, self._linear.domain())) *)
Definition ts_domain (s : tscale) : res dt * res dt :=
  (of_us_chk (to_us (ts_d0 s)), of_us_chk (to_us (ts_d1 s))).

(* fraction of the way along the domain *)
Definition ts_progress (s : tscale) (t : dt) : Q :=
  (to_ms t - to_ms (ts_d0 s)) / (to_ms (ts_d1 s) - to_ms (ts_d0 s)).
