(* The time package's own copy of the linear tick step (TimeTicks.lin_tick_step,
   used by the year and millisecond fall-backs of tickMethod) computes the same
   number as the linear scale's tick_step (Scale/Ticks.v), so the theorems of
   Scale/TickStepProofs.v (step = c * 10^e, 4/7 m step <= span < 10/7 m step)
   apply to it.  Helper of TickCountProofs.v. *)
From Coq Require Import ZArith QArith Qround Qpower Lia Lqa.
From Labella Require Import Time.Calendar Time.TimeTicks.
From Labella Require Scale.Ticks Scale.IlogProofs Scale.TickStepProofs.
Open Scope Q_scope.

Local Notation pow10 := Scale.Ticks.pow10.

Lemma up_spec fuel : forall q e r, 1 <= q -> ilog10_up fuel q e = Some r ->
  pow10 (r - e) <= q < pow10 (r - e + 1).
Proof.
  induction fuel as [|fuel IH]; intros q e r Hq H; cbn [ilog10_up] in H;
    destruct (Qle_bool 10 q) eqn:B; try discriminate.
  - injection H as <-. replace (e - e)%Z with 0%Z by lia.
    assert (q < 10). { apply Qnot_le_lt. intro L. apply Qle_bool_iff in L. congruence. }
    change (pow10 0) with 1. change (pow10 (0 + 1)) with 10. lra.
  - apply Qle_bool_iff in B. apply IH in H; [|apply Qle_shift_div_l; lra].
    replace (r - (e + 1))%Z with (r - e - 1)%Z in H by lia.
    replace (r - e - 1 + 1)%Z with (r - e)%Z in H by lia.
    rewrite Scale.IlogProofs.pow10_pred in H. rewrite Scale.IlogProofs.pow10_succ.
    assert (E : q / 10 * 10 == q) by field.
    assert (E' : pow10 (r - e) / 10 * 10 == pow10 (r - e)) by field. lra.
  - injection H as <-. replace (e - e)%Z with 0%Z by lia.
    assert (q < 10). { apply Qnot_le_lt. intro L. apply Qle_bool_iff in L. congruence. }
    change (pow10 0) with 1. change (pow10 (0 + 1)) with 10. lra.
Qed.

Lemma down_spec fuel : forall q e r, 0 < q -> q < 10 -> ilog10_down fuel q e = Some r ->
  pow10 (r - e) <= q < pow10 (r - e + 1).
Proof.
  induction fuel as [|fuel IH]; intros q e r Hq Hq' H; cbn [ilog10_down] in H;
    destruct (Qle_bool 1 q) eqn:B; try discriminate.
  - injection H as <-. replace (e - e)%Z with 0%Z by lia. apply Qle_bool_iff in B.
    change (pow10 0) with 1. change (pow10 (0 + 1)) with 10. lra.
  - injection H as <-. replace (e - e)%Z with 0%Z by lia. apply Qle_bool_iff in B.
    change (pow10 0) with 1. change (pow10 (0 + 1)) with 10. lra.
  - assert (q < 1). { apply Qnot_le_lt. intro L. apply Qle_bool_iff in L. congruence. }
    apply IH in H; [|lra|lra].
    replace (r - (e - 1))%Z with (r - e + 1)%Z in H by lia.
    rewrite !Scale.IlogProofs.pow10_succ in H. rewrite Scale.IlogProofs.pow10_succ. lra.
Qed.

Lemma time_ilog10_spec q r : 0 < q -> ilog10 q = Some r -> pow10 r <= q < pow10 (r + 1).
Proof.
  intros Hq H. unfold ilog10 in H. destruct (Qle_bool 1 q) eqn:B.
  - apply Qle_bool_iff in B. apply up_spec in H; [|assumption].
    replace (r - 0)%Z with r in H by lia. exact H.
  - assert (q < 1). { apply Qnot_le_lt. intro L. apply Qle_bool_iff in L. congruence. }
    apply down_spec in H; [|assumption|lra].
    replace (r - 0)%Z with r in H by lia. exact H.
Qed.

(* the two tick steps agree *)
Theorem lin_tick_step_eq lo hi m st : lo < hi -> (0 < m)%Z ->
  lin_tick_step lo hi m = Ok st -> st == Scale.Ticks.tick_step (hi - lo) m.
Proof.
  intros Hlt Hm H. unfold lin_tick_step in H. cbv zeta in H.
  unfold Scale.Ticks.tick_step.
  assert (E0 : Qeq_bool (hi - lo) 0 = false).
  { destruct (Qeq_bool (hi - lo) 0) eqn:B; [|reflexivity]. apply Qeq_bool_iff in B. lra. }
  rewrite E0 in *. destruct (m <=? 0)%Z eqn:Cm; [lia|].
  pose proof (Scale.TickStepProofs.inject_Z_pos m Hm) as Pm.
  assert (Hq : 0 < (hi - lo) / inject_Z m) by (apply Qlt_shift_div_l; lra).
  destruct (ilog10 ((hi - lo) / inject_Z m)) as [e|] eqn:El; [|discriminate].
  pose proof (time_ilog10_spec _ _ Hq El) as S.
  rewrite (Scale.IlogProofs.ilog10_unique _ _ S).
  injection H as <-. rewrite Qred_correct. reflexivity.
Qed.

(* when the span is at least m units the step is a positive integer, and the
   span lies between 4/7 and 10/7 of m steps *)
Theorem lin_tick_step_integer lo hi m st : (0 < m)%Z -> inject_Z m <= hi - lo ->
  lin_tick_step lo hi m = Ok st ->
  exists k : Z, (1 <= k)%Z /\ st == inject_Z k /\
    4 * (inject_Z m * inject_Z k) <= 7 * (hi - lo) /\ 7 * (hi - lo) < 10 * (inject_Z m * inject_Z k).
Proof.
  intros Hm Hs H.
  pose proof (Scale.TickStepProofs.inject_Z_pos m Hm) as Pm.
  assert (Hlt : lo < hi) by lra. assert (HS : 0 < hi - lo) by lra.
  pose proof (lin_tick_step_eq lo hi m st Hlt Hm H) as E.
  destruct (Scale.TickStepProofs.tick_step_spec (hi - lo) m HS Hm) as [[A B] (c & Ec & C)].
  destruct (Scale.TickStepProofs.step_span_bounds (hi - lo) m HS Hm) as [B1 B2].
  set (e := Scale.Ticks.ilog10 ((hi - lo) / inject_Z m)) in *.
  assert (He : (0 <= e)%Z).
  { assert (E1 : Scale.Ticks.ilog10 1 = 0%Z) by (apply Scale.IlogProofs.ilog10_unique; split; [apply Qle_refl|reflexivity]).
    rewrite <- E1. apply Scale.IlogProofs.ilog10_mono; [reflexivity|].
    apply Qle_shift_div_l; lra. }
  rewrite (Scale.IlogProofs.pow10_nonneg_Z e He) in Ec.
  assert (P10 : (0 < 10 ^ e)%Z) by (apply Z.pow_pos_nonneg; lia).
  assert (K : exists k : Z, (1 <= k)%Z /\ Scale.Ticks.tick_step (hi - lo) m == inject_Z k).
  { unfold Scale.TickStepProofs.step_case in C.
    destruct C as [[Q _]|[[Q _]|[[Q _]|[Q _]]]]; rewrite Q in Ec.
    - exists (10 * 10 ^ e)%Z. split; [lia|]. rewrite Ec, inject_Z_mult. reflexivity.
    - exists (5 * 10 ^ e)%Z. split; [lia|]. rewrite Ec, inject_Z_mult. reflexivity.
    - exists (2 * 10 ^ e)%Z. split; [lia|]. rewrite Ec, inject_Z_mult. reflexivity.
    - exists (10 ^ e)%Z. split; [lia|]. rewrite Ec. ring. }
  destruct K as (k & Hk & Ek). exists k. split; [assumption|]. split; [rewrite E; exact Ek|].
  rewrite Ek in B1, B2. lra.
Qed.

Lemma qtrunc_int q k : q == inject_Z k -> qtrunc q = k.
Proof.
  destruct q as [n d]. unfold Qeq, inject_Z, qtrunc. cbn [Qnum Qden]. intro H.
  replace n with (k * Zpos d)%Z by lia. apply Z.quot_mul. lia.
Qed.

Lemma skip_of_int sk k : (1 <= k)%Z -> sk == inject_Z k -> skip_of sk = k.
Proof.
  intros Hk E. unfold skip_of.
  assert (B : Qle_bool 1 sk = true).
  { apply Qle_bool_iff. rewrite E. change 1 with (inject_Z 1). rewrite <- Zle_Qle. assumption. }
  rewrite B. rewrite E. apply Qfloor_Z.
Qed.
