(* Model of TimeScale.tickMethod / TimeScale.ticks (labella/scale.py:402-420,
   458-480) with the pieces they use: d3_bisect on the table of step sizes
   (:157-170, :222-262), d3_scale_linearTickRange's step (:99-124, this
   package's own copy; the linear scale proper belongs to coq/Scale/), and
   d3TimeScaleMilliseconds.range (:197-211).  Doubles are modelled by exact
   rationals; epoch milliseconds are `to_us t # 1000`.  Model only. *)
From Coq Require Import ZArith QArith Qround List Bool.
From Labella Require Import Time.Calendar Time.Interval Time.TimeScale.
Import ListNotations.
Open Scope Z_scope.

(* d3_time_scaleSteps (milliseconds) and d3_time_scaleLocalMethods *)
Definition scale_steps : list Z :=
  [1000; 5000; 15000; 30000; 60000; 300000; 900000; 1800000; 3600000; 10800000;
   21600000; 43200000; 86400000; 172800000; 604800000; 2592000000; 7776000000;
   31536000000].
Definition scale_methods : list (unit_id * Z) :=
  [(USecond, 1); (USecond, 5); (USecond, 15); (USecond, 30);
   (UMinute, 1); (UMinute, 5); (UMinute, 15); (UMinute, 30);
   (UHour, 1); (UHour, 3); (UHour, 6); (UHour, 12);
   (UDay, 1); (UDay, 2); (UWeek, 1); (UMonth, 1); (UMonth, 3); (UYear, 1)].

(* d3_bisect (right, ascending): the first index whose entry is > x.  The code
   bisects; on this sorted table that is the number of leading entries <= x. *)
Fixpoint bisect (l : list Z) (x : Q) : nat :=
  match l with
  | [] => O
  | a :: r => if Qle_bool (inject_Z a) x then S (bisect r x) else O
  end.

(* math.floor(math.log(q) / math.log(10)) for q > 0, exactly: the e with
   10^e <= q < 10^(e+1) *)
Fixpoint ilog10_up (fuel : nat) (q : Q) (e : Z) : option Z :=
  if Qle_bool 10 q then
    match fuel with O => None | S f => ilog10_up f (q / 10)%Q (e + 1) end
  else Some e.
Fixpoint ilog10_down (fuel : nat) (q : Q) (e : Z) : option Z :=
  if Qle_bool 1 q then Some e
  else match fuel with O => None | S f => ilog10_down f (q * 10)%Q (e - 1) end.
Definition ilog10_fuel (q : Q) : nat :=
  S (Z.to_nat (Z.log2 (Z.abs (Qnum q)) + Z.log2 (Zpos (Qden q)))).
Definition ilog10 (q : Q) : option Z :=
  if Qle_bool 1 q then ilog10_up (ilog10_fuel q) q 0
  else ilog10_down (ilog10_fuel q) q 0.

(* d3_scale_linearTickRange(domain, m)[2] for domain = [lo, hi], lo <= hi:
     span == 0 -> 0
     step = 10 ** floor(log10(span / m)); err = m / span * step
     err <= .15 -> step * 10 | err <= .35 -> step * 5 | err <= .75 -> step * 2
   (the thresholds are the decimal literals; a double err that is exactly on
    one is the tie's ambiguity band) *)
Definition lin_tick_step (lo hi : Q) (m : Z) : res Q :=
  let span := (hi - lo)%Q in
  if Qeq_bool span 0 then Ok 0%Q
  else if m <=? 0 then Raise
  else match ilog10 (span / inject_Z m)%Q with
       | None => NoFuel
       | Some e =>
           let step := Qpower 10 e in
           let err := (inject_Z m / span * step)%Q in
           Ok (if Qle_bool err (15 # 100) then step * 10
               else if Qle_bool err (35 # 100) then step * 5
               else if Qle_bool err (75 # 100) then step * 2
               else step)%Q
       end.

Inductive tick_method : Type :=
| TMillis (step : Q)                 (* [d3_time_scaleMilliseconds, step] *)
| TUnit (u : unit_id) (skip : Q).    (* [d3_time[u], skip] *)

(* TimeScale.tickMethod(extent, count); extent in epoch milliseconds, e0 <= e1 *)
Definition tick_method_of (e0 e1 : Q) (count : Z) : res tick_method :=
  if count <=? 0 then Raise            (* ZeroDivisionError / outside the documented counts *)
  else
    let span := (e1 - e0)%Q in
    let target := (span / inject_Z count)%Q in
    let i := bisect scale_steps target in
    if Nat.eqb i (length scale_steps) then
      match lin_tick_step (e0 / 31536000000) (e1 / 31536000000) count with
      | Ok st => Ok (TUnit UYear st) | Raise => Raise | NoFuel => NoFuel
      end
    else if Nat.eqb i 0 then
      match lin_tick_step e0 e1 count with
      | Ok st => Ok (TMillis st) | Raise => Raise | NoFuel => NoFuel
      end
    else
      let lo := inject_Z (nth (i - 1) scale_steps 1) in
      let hi := inject_Z (nth i scale_steps 1) in
      let pick := if Qle_bool (hi / target) (target / lo) then i else (i - 1)%nat in
      let '(u, k) := nth pick scale_methods (UYear, 1) in
      Ok (TUnit u (inject_Z k)).

(* int(x) for a double: truncation toward zero *)
Definition qtrunc (q : Q) : Z := Z.quot (Qnum q) (Zpos (Qden q)).

(* d3TimeScaleMilliseconds.range(start, stop, step):
     step = max(1, int(step))
     map(milli2dt, range(ceil(int(dt2milli(start)) / step) * step, int(dt2milli(stop)), step)) *)
Fixpoint ms_loop (fuel : nat) (cur stop step : Z) : res (list dt) :=
  if cur <? stop then
    match fuel with
    | O => NoFuel
    | S f =>
        rbind (of_us_chk (cur * 1000)) (fun t =>
        rbind (ms_loop f (cur + step) stop step) (fun rest => Ok (t :: rest)))
    end
  else Ok [].
Definition ms_range (start stop : dt) (step : Q) : res (list dt) :=
  let st := Z.max 1 (qtrunc step) in
  let a := qtrunc (to_ms start) in
  let b := qtrunc (to_ms stop) in
  let first := - ((- a) / st) * st in            (* ceil(a / st) * st *)
  ms_loop (Z.to_nat ((b - first) / st + 1)) first b st.

(* TimeScale.ticks(m): extent = sorted domain; method = tickMethod(extent, m);
   interval.range(milli2dt(extent[0]), milli2dt(extent[1] + 1), skip)  (skip < 1 -> 1) *)
Definition dom_lo (d0 d1 : dt) : dt := if dt_ltb d0 d1 then d0 else d1.
Definition dom_hi (d0 d1 : dt) : dt := if dt_ltb d0 d1 then d1 else d0.
Definition skip_of (sk : Q) : Z := if Qle_bool 1 sk then Qfloor sk else 1.

Definition ts_ticks (d0 d1 : dt) (m : Z) : res (list dt) :=
  let lo := dom_lo d0 d1 in
  let hi := dom_hi d0 d1 in
  match tick_method_of (to_ms lo) (to_ms hi) m with
  | Raise => Raise
  | NoFuel => NoFuel
  | Ok meth =>
      rbind (of_us_chk (to_us lo)) (fun t0 =>
      rbind (of_us_chk (to_us hi + 1000)) (fun t1 =>
      match meth with
      | TMillis step => ms_range t0 t1 step
      | TUnit u skip => iv_range (interval_of u) t0 t1 (skip_of skip)
      end))
  end.
