(* The seven units of d3_time.py meet the hypotheses of the generic interval
   theory (Time/IntervalProofs.v: unit_ok), with the independent boundary
   predicates of Time/IntervalSpec.v. *)
From Coq Require Import ZArith List Bool Lia ZifyBool ZifyN ZifyNat.
From Labella Require Import Time.Calendar Time.CalendarProofs Time.Interval
  Time.IntervalSpec Time.IntervalProofs.
Import ListNotations.
Ltac Zify.zify_post_hook ::= Z.to_euclidean_division_equations.
Open Scope Z_scope.

Local Notation D := 86400000000.

(* ---------- units whose boundaries are the multiples of a length ---------- *)
Section Epoch.
  Variable len : Z.
  Hypothesis len_ms : len mod 1000 = 0.
  Hypothesis len_lo : 1000 <= len.
  Hypothesis len_hi : len <= D.
  Variable loc : dt -> res dt.
  Variable stp : dt -> Z -> res dt.
  Variable num : dt -> Z.
  Hypothesis loc_eq : forall t, valid t -> loc t = epoch_floor len t.
  Hypothesis stp_eq : forall t k, stp t k = epoch_step len t k.

  Lemma floor_len_bounds x : x / len * len <= x < (x / len + 1) * len.
  Proof.
    pose proof (Z.div_mod x len ltac:(lia)). pose proof (Z.mod_pos_bound x len ltac:(lia)).
    nia.
  Qed.

  Lemma mult_len_ms k : (k * len) mod 1000 = 0.
  Proof.
    pose proof (Z.div_mod len 1000 ltac:(lia)) as E. rewrite len_ms in E.
    replace (k * len) with (k * (len / 1000) * 1000) by lia. apply Z.mod_mul. lia.
  Qed.

  Lemma epoch_unit_ok : unit_ok (mk_interval loc stp num len) (fun x => x mod len = 0).
  Proof.
    apply (mk_unit_ok _ _ (fun k => k * len)); cbn [iv_local iv_step iv_minlen].
    - exact len_lo.
    - intros k. lia.
    - intros k. unfold YEAR_MAX_US. lia.
    - exact mult_len_ms.
    - intros x. split.
      + intros H. exists (x / len). pose proof (Z.div_mod x len ltac:(lia)). lia.
      + intros [k ->]. apply Z.mod_mul. lia.
    - intros t r Hv H. rewrite (loc_eq t Hv) in H. unfold epoch_floor in H.
      apply of_us_chk_ok in H. destruct H as [Hr E]. split; [exact Hr|].
      exists (to_us t / len). rewrite E. pose proof (floor_len_bounds (to_us t)). lia.
    - intros t Hv. rewrite (loc_eq t Hv). apply of_us_chk_nofuel.
    - intros t Hv Hlo. rewrite (loc_eq t Hv). unfold epoch_floor.
      eexists. apply of_us_chk_in_range.
      pose proof (valid_in_range t Hv) as R. apply in_range_iff in R. apply in_range_iff.
      pose proof (floor_len_bounds (to_us t)). unfold WEEK_US in Hlo. lia.
    - intros t j k r Hv Ej Hk H. rewrite stp_eq in H. unfold epoch_step in H.
      apply of_us_chk_ok in H. destruct H as [Hr E]. split; [exact Hr|]. rewrite E, Ej. lia.
    - intros t k Hv. rewrite stp_eq. apply of_us_chk_nofuel.
    - intros t j k Hv Ej Hk Hmax. rewrite stp_eq. unfold epoch_step.
      eexists. apply of_us_chk_in_range.
      pose proof (valid_in_range t Hv) as R. apply in_range_iff in R. apply in_range_iff.
      assert (0 <= k * len) by (apply Z.mul_nonneg_nonneg; lia).
      replace (to_us t + k * len) with ((j + k) * len) by lia. lia.
  Qed.
End Epoch.

Lemma second_ok : unit_ok iv_second (is_boundary USecond).
Proof.
  apply (epoch_unit_ok US_S); unfold US_S; try reflexivity; try lia; intros; reflexivity.
Qed.
Lemma minute_ok : unit_ok iv_minute (is_boundary UMinute).
Proof.
  apply (epoch_unit_ok US_MIN); unfold US_MIN; try reflexivity; try lia; intros; reflexivity.
Qed.
Lemma hour_ok : unit_ok iv_hour (is_boundary UHour).
Proof.
  apply (epoch_unit_ok US_H); unfold US_H; try reflexivity; try lia; intros; reflexivity.
Qed.

(* ---------- day: field truncation = epoch floor --------------------------- *)
Definition midnight (t : dt) : dt := mkdt (dt_y t) (dt_mo t) (dt_d t) 0 0 0 0.

Lemma midnight_valid t : valid t -> valid (midnight t).
Proof.
  intros H. apply valid_unfold in H. destruct H as [Hy Hw]. apply wf_unfold in Hw.
  apply valid_unfold. split; [exact Hy|]. apply wf_unfold. unfold midnight.
  cbn [dt_y dt_mo dt_d dt_h dt_mi dt_s dt_us]. intuition lia.
Qed.

Lemma to_us_midnight t :
  to_us (midnight t) = days_from_civil (dt_y t) (dt_mo t) (dt_d t) * D.
Proof. unfold to_us, midnight. cbn [dt_y dt_mo dt_d dt_h dt_mi dt_s dt_us]. lia. Qed.

Lemma day_local_ok t : valid t -> day_local t = Ok (midnight t).
Proof. intros H. unfold day_local, date_of. apply chk_valid. exact (midnight_valid t H). Qed.

Lemma to_us_day_split t : wf t ->
  let n := days_from_civil (dt_y t) (dt_mo t) (dt_d t) in
  n * D <= to_us t < (n + 1) * D /\ to_us t / D = n.
Proof.
  intros H. destruct (to_us_days t H) as [Hd Hr]. cbv zeta. rewrite <- Hd. lia.
Qed.

Lemma day_local_epoch t : valid t -> day_local t = epoch_floor US_DAY t.
Proof.
  intros H. rewrite (day_local_ok t H). unfold epoch_floor, US_DAY.
  destruct (to_us_day_split t (valid_wf t H)) as [_ E]. cbv zeta in E. rewrite E.
  rewrite <- to_us_midnight.
  rewrite of_us_chk_in_range by (apply valid_in_range, midnight_valid; exact H).
  rewrite of_us_to_us by (apply valid_wf, midnight_valid; exact H). reflexivity.
Qed.

Lemma day_ok : unit_ok iv_day (is_boundary UDay).
Proof.
  apply (epoch_unit_ok US_DAY); unfold US_DAY; try reflexivity; try lia.
  exact day_local_epoch.
Qed.

(* ---------- week ------------------------------------------------------------ *)
Lemma week_ok : unit_ok iv_week (is_boundary UWeek).
Proof.
  apply (mk_unit_ok _ _ (fun k => (7 * k + 3) * D)); cbn [iv_week iv_local iv_step iv_minlen].
  - unfold US_DAY. lia.
  - intros k. unfold US_DAY. lia.
  - intros k. unfold YEAR_MAX_US. lia.
  - intros k. lia.
  - intros x. unfold is_boundary, isoweekday_of_days. split.
    + intros [H1 H2]. exists ((x / D - 3) / 7). lia.
    + intros [k ->]. lia.
  - intros t r Hv H. unfold week_local in H. rewrite (day_local_ok t Hv) in H. cbn [rbind] in H.
    unfold add_us in H. apply of_us_chk_ok in H. destruct H as [Hr E]. split; [exact Hr|].
    rewrite to_us_midnight in E. unfold isoweekday, isoweekday_of_days, US_DAY in E.
    destruct (to_us_day_split t (valid_wf t Hv)) as [Hb _]. cbv zeta in Hb.
    set (n := days_from_civil (dt_y t) (dt_mo t) (dt_d t)) in *.
    exists ((n - 3) / 7). lia.
  - intros t Hv. unfold week_local. rewrite (day_local_ok t Hv). cbn [rbind].
    apply of_us_chk_nofuel.
  - intros t Hv Hlo. unfold week_local. rewrite (day_local_ok t Hv). cbn [rbind].
    eexists. apply of_us_chk_in_range.
    pose proof (valid_in_range t Hv) as R. apply in_range_iff in R. apply in_range_iff.
    rewrite to_us_midnight. unfold isoweekday, isoweekday_of_days, US_DAY, WEEK_US in *.
    destruct (to_us_day_split t (valid_wf t Hv)) as [Hb _]. cbv zeta in Hb.
    set (n := days_from_civil (dt_y t) (dt_mo t) (dt_d t)) in *. lia.
  - intros t j k r Hv Ej Hk H. unfold week_step, add_us in H.
    apply of_us_chk_ok in H. destruct H as [Hr E]. split; [exact Hr|].
    rewrite E, Ej. unfold US_DAY. lia.
  - intros t k Hv. apply of_us_chk_nofuel.
  - intros t j k Hv Ej Hk Hmax. unfold week_step, add_us. eexists. apply of_us_chk_in_range.
    pose proof (valid_in_range t Hv) as R. apply in_range_iff in R. apply in_range_iff.
    unfold US_DAY. lia.
Qed.

(* ---------- month ----------------------------------------------------------- *)
Definition first_day (y m : Z) : dt := mkdt y m 1 0 0 0 0.

Lemma first_day_wf y m : 1 <= m <= 12 -> wf (first_day y m).
Proof.
  intros Hm. apply wf_unfold. unfold first_day, md_ok.
  cbn [dt_y dt_mo dt_d dt_h dt_mi dt_s dt_us].
  pose proof (days_in_month_bounds y m). lia.
Qed.

Lemma to_us_first_day y m : 1 <= m <= 12 ->
  to_us (first_day y m) = first_of_month (12 * y + m - 1) * D.
Proof.
  intros Hm. unfold to_us, first_day. cbn [dt_y dt_mo dt_d dt_h dt_mi dt_s dt_us].
  rewrite (days_from_civil_fom y m 1 Hm). lia.
Qed.

Lemma first_day_of_index k : to_us (first_day (k / 12) (k mod 12 + 1)) = first_of_month k * D.
Proof.
  rewrite to_us_first_day by lia. f_equal. f_equal. lia.
Qed.

(* a valid datetime whose instant is the k-th month boundary is that record *)
Lemma boundary_month_record t k : wf t -> to_us t = first_of_month k * D ->
  t = first_day (k / 12) (k mod 12 + 1).
Proof.
  intros Hw E. apply to_us_inj; [exact Hw|apply first_day_wf; lia|].
  rewrite first_day_of_index. exact E.
Qed.

Definition set_year (t : dt) (y : Z) : dt :=
  mkdt y (dt_mo t) (dt_d t) (dt_h t) (dt_mi t) (dt_s t) (dt_us t).

Lemma month_loop_ok fuel : forall t nm p, month_loop fuel t nm = Ok p ->
  exists q, 0 <= q /\ fst p = set_year t (dt_y t + q) /\ snd p = nm - 12 * q /\
            snd p <= 12 /\ (1 <= nm -> 1 <= snd p).
Proof.
  induction fuel as [|fuel IH]; intros t nm p H; cbn [month_loop] in H;
    destruct (nm >? 12) eqn:C.
  - discriminate.
  - injection H as <-. exists 0. cbn [fst snd]. split; [lia|].
    split; [destruct t as [y0 m0 d0 h0 mi0 s0 us0]; unfold set_year; cbn [dt_y dt_mo dt_d dt_h dt_mi dt_s dt_us]; f_equal; lia|].
    split; [lia|]. split; [lia|]. intros; lia.
  - apply rbind_ok in H. destruct H as (t' & E1 & H).
    unfold replace_year in E1. apply chk_ok in E1. destruct E1 as [-> _].
    apply IH in H. destruct H as (q & Hq & E1 & E2 & E3 & E4).
    exists (q + 1). cbn [dt_y dt_mo dt_d dt_h dt_mi dt_s dt_us] in E1.
    split; [lia|]. split; [rewrite E1; unfold set_year; cbn; f_equal; lia|].
    split; [lia|]. split; [lia|]. intros _. apply E4. lia.
  - injection H as <-. exists 0. cbn [fst snd]. split; [lia|].
    split; [destruct t as [y0 m0 d0 h0 mi0 s0 us0]; unfold set_year; cbn [dt_y dt_mo dt_d dt_h dt_mi dt_s dt_us]; f_equal; lia|].
    split; [lia|]. split; [lia|]. intros; lia.
Qed.

Lemma month_loop_nofuel fuel : forall t nm, nm <= 12 * Z.of_nat fuel + 12 ->
  month_loop fuel t nm <> NoFuel.
Proof.
  induction fuel as [|fuel IH]; intros t nm Hf; cbn [month_loop];
    destruct (nm >? 12) eqn:C; try discriminate.
  - lia.
  - intros H. apply rbind_nofuel in H. destruct H as [H|(t' & _ & H)].
    + unfold replace_year in H. exact (chk_nofuel _ H).
    + revert H. apply IH. lia.
Qed.

Lemma month_fuel_enough nm : nm <= 12 * Z.of_nat (month_fuel nm) + 12.
Proof. unfold month_fuel. lia. Qed.

Lemma set_year_valid t y : wf t -> dt_d t <= 28 -> 1 <= y <= 9999 -> valid (set_year t y).
Proof.
  intros Hw Hd Hy. apply wf_unfold in Hw. apply valid_unfold. unfold set_year.
  cbn [dt_y dt_mo dt_d dt_h dt_mi dt_s dt_us]. split; [exact Hy|].
  apply wf_unfold. unfold md_ok in *. cbn [dt_y dt_mo dt_d dt_h dt_mi dt_s dt_us].
  pose proof (days_in_month_bounds y (dt_mo t)). intuition lia.
Qed.

Lemma month_loop_total fuel : forall t nm,
  wf t -> dt_d t <= 28 -> 1 <= dt_y t -> dt_y t + (nm - 1) / 12 <= 9999 -> 1 <= nm ->
  nm <= 12 * Z.of_nat fuel + 12 -> exists p, month_loop fuel t nm = Ok p.
Proof.
  induction fuel as [|fuel IH]; intros t nm Hw Hd Hy Hmax Hnm Hf; cbn [month_loop];
    destruct (nm >? 12) eqn:C; try (eexists; reflexivity).
  - lia.
  - unfold replace_year. fold (set_year t (dt_y t + 1)).
    rewrite chk_valid by (apply set_year_valid; [exact Hw|exact Hd|lia]).
    cbn [rbind]. apply IH.
    + apply valid_wf. apply set_year_valid; [exact Hw|exact Hd|lia].
    + exact Hd.
    + cbn. lia.
    + cbn [set_year dt_y]. lia.
    + lia.
    + lia.
Qed.

Lemma month_ok : unit_ok iv_month (is_boundary UMonth).
Proof.
  apply (mk_unit_ok _ _ (fun k => first_of_month k * D)); cbn [iv_month iv_local iv_step iv_minlen].
  - unfold US_DAY. lia.
  - intros k. rewrite first_of_month_succ. pose proof (month_len_bounds k). unfold US_DAY. lia.
  - intros k. rewrite first_of_month_succ. pose proof (month_len_bounds k).
    unfold YEAR_MAX_US. lia.
  - intros k. lia.
  - intros x. unfold is_boundary. fold (first_day 0 1). split.
    + intros (y & m & Hm & ->). exists (12 * y + m - 1). apply (to_us_first_day y m Hm).
    + intros [k ->]. exists (k / 12), (k mod 12 + 1). split; [lia|].
      symmetry. apply first_day_of_index.
  - intros t r Hv H. unfold month_local in H. rewrite (day_local_ok t Hv) in H.
    cbn [rbind] in H. unfold replace_day, midnight in H.
    cbn [dt_y dt_mo dt_d dt_h dt_mi dt_s dt_us] in H.
    apply chk_ok in H. destruct H as [-> Hr]. split; [exact Hr|].
    pose proof (valid_wf t Hv) as Hw. apply wf_unfold in Hw. destruct Hw as (Hmd & _).
    pose proof (days_from_civil_month_bounds _ _ _ Hmd) as Bd.
    destruct (to_us_day_split t (valid_wf t Hv)) as [Hb _]. cbv zeta in Hb.
    destruct Hmd as [Hm _].
    exists (12 * dt_y t + dt_mo t - 1).
    fold (first_day (dt_y t) (dt_mo t)). rewrite (to_us_first_day _ _ Hm).
    replace (12 * dt_y t + dt_mo t - 1 + 1) with (12 * dt_y t + dt_mo t) by lia.
    set (n := days_from_civil (dt_y t) (dt_mo t) (dt_d t)) in *. lia.
  - intros t Hv. unfold month_local. rewrite (day_local_ok t Hv). cbn [rbind].
    unfold replace_day. apply chk_nofuel.
  - intros t Hv _. unfold month_local. rewrite (day_local_ok t Hv). cbn [rbind].
    unfold replace_day, midnight. cbn [dt_y dt_mo dt_d dt_h dt_mi dt_s dt_us].
    eexists. apply chk_valid. fold (first_day (dt_y t) (dt_mo t)).
    pose proof (valid_unfold t) as [V _]. specialize (V Hv). destruct V as [Hy Hw].
    apply wf_unfold in Hw. destruct Hw as ([Hm _] & _).
    apply valid_unfold. split; [exact Hy|apply first_day_wf; exact Hm].
  - intros t j k r Hv Ej Hk H.
    pose proof (boundary_month_record t j (valid_wf t Hv) Ej) as Et.
    unfold month_step in H. apply rbind_ok in H. destruct H as (p & E1 & E2).
    apply month_loop_ok in E1. destruct E1 as (q & Hq & F1 & F2 & F3 & F4).
    unfold replace_month in E2. apply chk_ok in E2. destruct E2 as [-> Hr].
    split; [exact Hr|].
    rewrite F1. unfold set_year. cbn [dt_y dt_mo dt_d dt_h dt_mi dt_s dt_us].
    rewrite Et in *. unfold first_day in *. cbn [dt_y dt_mo dt_d dt_h dt_mi dt_s dt_us] in *.
    fold (first_day (j / 12 + q) (snd p)).
    rewrite to_us_first_day by lia. f_equal. f_equal. lia.
  - intros t k Hv. unfold month_step. intros H. apply rbind_nofuel in H.
    destruct H as [H|(p & _ & H)].
    + revert H. apply month_loop_nofuel, month_fuel_enough.
    + unfold replace_month in H. exact (chk_nofuel _ H).
  - intros t j k Hv Ej Hk Hmax.
    pose proof (boundary_month_record t j (valid_wf t Hv) Ej) as Et.
    assert (Hjk : j + k < 120000).
    { apply first_of_month_lt_inv. pose proof fom_max. lia. }
    pose proof (valid_unfold t) as [V _]. specialize (V Hv). destruct V as [Hy Hw].
    unfold month_step.
    destruct (month_loop_total (month_fuel (dt_mo t + k)) t (dt_mo t + k)) as [p Ep].
    + exact Hw.
    + rewrite Et. cbn. lia.
    + lia.
    + rewrite Et. cbn [first_day dt_y dt_mo]. lia.
    + rewrite Et. cbn [first_day dt_y dt_mo]. lia.
    + apply month_fuel_enough.
    + rewrite Ep. cbn [rbind]. pose proof Ep as Ep'.
      apply month_loop_ok in Ep. destruct Ep as (q & Hq & F1 & F2 & F3 & F4).
      unfold replace_month. eexists. apply chk_valid.
      rewrite F1. unfold set_year. cbn [dt_y dt_mo dt_d dt_h dt_mi dt_s dt_us].
      rewrite Et in *. unfold first_day in *. cbn [dt_y dt_mo dt_d dt_h dt_mi dt_s dt_us] in *.
      fold (first_day (j / 12 + q) (snd p)).
      apply valid_unfold. split; [|apply first_day_wf; lia].
      cbn [first_day dt_y]. lia.
Qed.

(* ---------- year ------------------------------------------------------------ *)
Lemma fom_year y : first_of_month (12 * y) = days_from_civil y 1 1.
Proof.
  unfold first_of_month. replace (12 * y / 12) with y by lia.
  replace ((12 * y) mod 12 + 1) with 1 by lia. reflexivity.
Qed.

Lemma to_us_jan1 y : to_us (first_day y 1) = first_of_month (12 * y) * D.
Proof. rewrite to_us_first_day by lia. f_equal. f_equal. lia. Qed.

Lemma year_len_bounds y : 365 <= year_len y <= 366.
Proof. unfold year_len. destruct (is_leap y); lia. Qed.

Lemma fom_year_succ y : first_of_month (12 * (y + 1)) = first_of_month (12 * y) + year_len y.
Proof. rewrite !fom_year. apply first_of_year_succ. Qed.

Lemma boundary_year_record t k : wf t -> to_us t = first_of_month (12 * k) * D ->
  t = first_day k 1.
Proof.
  intros Hw E. apply to_us_inj; [exact Hw|apply first_day_wf; lia|].
  rewrite to_us_jan1. exact E.
Qed.

Lemma year_ok : unit_ok iv_year (is_boundary UYear).
Proof.
  apply (mk_unit_ok _ _ (fun k => first_of_month (12 * k) * D)); cbn [iv_year iv_local iv_step iv_minlen].
  - unfold US_DAY. lia.
  - intros k. rewrite fom_year_succ. pose proof (year_len_bounds k). unfold US_DAY. lia.
  - intros k. rewrite fom_year_succ. pose proof (year_len_bounds k). unfold YEAR_MAX_US. lia.
  - intros k. lia.
  - intros x. unfold is_boundary. fold (first_day 0 1). split.
    + intros (y & ->). exists y. apply (to_us_jan1 y).
    + intros [k ->]. exists k. symmetry. apply (to_us_jan1 k).
  - intros t r Hv H. unfold year_local in H. rewrite (day_local_ok t Hv) in H.
    cbn [rbind] in H. unfold replace_month_day, midnight in H.
    cbn [dt_y dt_mo dt_d dt_h dt_mi dt_s dt_us] in H.
    apply chk_ok in H. destruct H as [-> Hr]. split; [exact Hr|].
    exists (dt_y t). fold (first_day (dt_y t) 1). rewrite to_us_jan1.
    pose proof (to_us_year_bounds t (valid_wf t Hv)) as Bd.
    replace (12 * (dt_y t + 1)) with (12 * dt_y t + 12) by lia. lia.
  - intros t Hv. unfold year_local. rewrite (day_local_ok t Hv). cbn [rbind].
    unfold replace_month_day. apply chk_nofuel.
  - intros t Hv _. unfold year_local. rewrite (day_local_ok t Hv). cbn [rbind].
    unfold replace_month_day, midnight. cbn [dt_y dt_mo dt_d dt_h dt_mi dt_s dt_us].
    eexists. apply chk_valid. fold (first_day (dt_y t) 1).
    pose proof (valid_unfold t) as [V _]. specialize (V Hv). destruct V as [Hy _].
    apply valid_unfold. split; [exact Hy|apply first_day_wf; lia].
  - intros t j k r Hv Ej Hk H.
    pose proof (boundary_year_record t j (valid_wf t Hv) Ej) as Et.
    unfold year_step, replace_year in H. apply chk_ok in H. destruct H as [-> Hr].
    split; [exact Hr|]. rewrite Et. unfold first_day. cbn [dt_y dt_mo dt_d dt_h dt_mi dt_s dt_us].
    fold (first_day (j + k) 1). apply to_us_jan1.
  - intros t k Hv. unfold year_step, replace_year. apply chk_nofuel.
  - intros t j k Hv Ej Hk Hmax.
    pose proof (boundary_year_record t j (valid_wf t Hv) Ej) as Et.
    assert (Hjk : 12 * (j + k) < 120000).
    { apply first_of_month_lt_inv. pose proof fom_max. lia. }
    pose proof (valid_unfold t) as [V _]. specialize (V Hv). destruct V as [Hy _].
    unfold year_step, replace_year. eexists. apply chk_valid.
    rewrite Et in *. unfold first_day in *. cbn [dt_y dt_mo dt_d dt_h dt_mi dt_s dt_us] in *.
    fold (first_day (j + k) 1). apply valid_unfold. split; [cbn; lia|apply first_day_wf; lia].
Qed.

(* ---------- all units -------------------------------------------------------- *)
Definition all_units_ok (u : unit_id) : unit_ok (interval_of u) (is_boundary u) :=
  match u with
  | USecond => second_ok | UMinute => minute_ok | UHour => hour_ok | UDay => day_ok
  | UWeek => week_ok | UMonth => month_ok | UYear => year_ok
  end.

(* the model's number functions are the independent unit numbers *)
Lemma clock_fields t : wf t ->
  dt_s t = (to_us t / 1000000) mod 60 /\ dt_mi t = (to_us t / 60000000) mod 60 /\
  dt_h t = (to_us t / 3600000000) mod 24.
Proof.
  intros H. apply wf_unfold in H. destruct H as (_ & Hh & Hmi & Hs & Hus).
  unfold to_us. set (n := days_from_civil _ _ _). lia.
Qed.

Lemma year_local_ok t : valid t -> year_local t = Ok (first_day (dt_y t) 1).
Proof.
  intros Hv. unfold year_local. rewrite (day_local_ok t Hv). cbn [rbind].
  unfold replace_month_day, midnight. cbn [dt_y dt_mo dt_d dt_h dt_mi dt_s dt_us].
  fold (first_day (dt_y t) 1). apply chk_valid.
  pose proof (valid_unfold t) as [V _]. specialize (V Hv). destruct V as [Hy _].
  apply valid_unfold. split; [exact Hy|apply first_day_wf; lia].
Qed.

Lemma week_number_spec t : valid t -> week_number t = unit_number UWeek t.
Proof.
  intros Hv. unfold week_number, day_of_year. rewrite (year_local_ok t Hv).
  unfold unit_number, sunday_on_or_before, isoweekday, isoweekday_of_days, US_DAY.
  rewrite to_us_jan1, fom_year. unfold first_day. cbn [dt_y dt_mo dt_d].
  destruct (to_us_day_split t (valid_wf t Hv)) as [Hb Hd]. cbv zeta in Hb, Hd.
  set (n := days_from_civil (dt_y t) (dt_mo t) (dt_d t)) in *.
  set (j := days_from_civil (dt_y t) 1 1) in *.
  rewrite Hd.
  replace ((to_us t - j * D) / D) with (n - j) by lia.
  destruct (((j + 3) mod 7 + 1) mod 7 =? 7) eqn:C; lia.
Qed.

Lemma number_is_unit_number u t : valid t -> iv_number (interval_of u) t = unit_number u t.
Proof.
  intros H. destruct (clock_fields t (valid_wf t H)) as (E1 & E2 & E3).
  destruct u; try (cbn; auto; fail).
  exact (week_number_spec t H).
Qed.

(* years 2..9997 are inside the window in which nothing overflows *)
Lemma year_window t : valid t -> 2 <= dt_y t <= 9997 ->
  MIN_US + WEEK_US + 1000 <= to_us t /\ to_us t + YEAR_MAX_US <= MAX_US.
Proof.
  intros Hv Hy. pose proof (to_us_year_bounds t (valid_wf t Hv)) as Bd.
  pose proof (first_of_month_le 24 (12 * dt_y t) ltac:(lia)) as G1.
  pose proof (first_of_month_le (12 * dt_y t + 12) 119976 ltac:(lia)) as G2.
  assert (E1 : first_of_month 24 = -718797) by reflexivity.
  assert (E2 : first_of_month 119976 = 2932167) by reflexivity.
  unfold MIN_US, MAX_US, WEEK_US, YEAR_MAX_US. lia.
Qed.

(* ---------- the statements of Props/C17.v that need glue -------------------- *)
Lemma units_total u t : valid t -> 2 <= dt_y t <= 9997 ->
  (exists r, iv_floor (interval_of u) t = Ok r) /\
  (exists r, iv_ceil (interval_of u) t = Ok r) /\
  (exists r, iv_round (interval_of u) t = Ok r).
Proof.
  intros Hv Hy. destruct (year_window t Hv Hy) as [Hlo Hhi].
  split; [|split].
  - apply (g_floor_total _ _ (all_units_ok u) t Hv). unfold WEEK_US in *. lia.
  - exact (g_ceil_total _ _ (all_units_ok u) t Hv Hlo Hhi).
  - apply (g_round_total _ _ (all_units_ok u) t Hv); [unfold WEEK_US in *; lia|exact Hhi].
Qed.

Lemma units_range_total u t0 t1 st :
  valid t0 -> valid t1 -> 2 <= dt_y t0 <= 9997 -> 2 <= dt_y t1 <= 9997 ->
  exists l, iv_range (interval_of u) t0 t1 st = Ok l.
Proof.
  intros H0 H1 Hy0 Hy1.
  destruct (year_window t0 H0 Hy0) as [Hlo0 Hhi0].
  destruct (year_window t1 H1 Hy1) as [_ Hhi1].
  exact (g_range_total _ _ (all_units_ok u) t0 t1 st H0 H1 Hlo0 Hhi0 Hhi1).
Qed.

Lemma units_range_spec u t0 t1 st l :
  valid t0 -> ms_resolution t0 -> iv_range (interval_of u) t0 t1 st = Ok l ->
  Forall valid l /\ Sorted.StronglySorted lt_us l /\
  (forall x, valid x ->
     (In x l <-> is_boundary u (to_us x) /\ to_us t0 <= to_us x < to_us t1 /\
                 (1 < st -> unit_number u x mod st = 0))).
Proof.
  intros H0 Hms H.
  destruct (g_range _ _ (all_units_ok u) t0 t1 st l H0 Hms H) as (F1 & F2 & F3).
  split; [exact F1|]. split; [exact F2|].
  intros x Hx. rewrite (F3 x Hx). unfold in_range_spec.
  rewrite (number_is_unit_number u x Hx). reflexivity.
Qed.
