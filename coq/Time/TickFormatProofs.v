(* Proofs about Time/TickFormat.v: the digit strings read back as the numbers they
   were made from (through the standard library's decimal reader N.of_uint), the
   padded fields have their widths, the time format is total with the widths of
   its seven branches, and the fixed-point text of a linear tick denotes the tick
   exactly. *)
From Coq Require Import ZArith NArith QArith Qround Lia Lqa List Bool Decimal DecimalN DecimalPos.
From Labella Require Import Time.Calendar Time.CalendarProofs Time.TickFormat
  Scale.Ticks Scale.TicksProofs Scale.IlogProofs Scale.FmtProofs.
Import ListNotations.
Open Scope Z_scope.

(* ---------- reading digits back --------------------------------------------------------- *)
(* the number a string of ASCII digits denotes (leading zeros allowed) *)
Definition dstep (acc : Z) (c : N) : Z := acc * 10 + (Z.of_N c - 48).
Definition dvalue (l : list N) : Z := fold_left dstep l 0.

Lemma of_uint_acc_fold : forall l acc,
  Zpos (Pos.of_uint_acc l acc) = fold_left dstep (uint_codes l) (Zpos acc).
Proof.
  induction l; intros acc; cbn [Pos.of_uint_acc uint_codes fold_left]; try reflexivity;
    rewrite IHl; f_equal; unfold dstep; lia.
Qed.

Lemma of_uint_fold : forall u, Z.of_N (N.of_uint u) = fold_left dstep (uint_codes u) 0.
Proof.
  unfold N.of_uint. induction u; cbn [Pos.of_uint uint_codes fold_left]; try reflexivity;
    try (rewrite IHu; reflexivity);
    cbn [Z.of_N]; rewrite of_uint_acc_fold; reflexivity.
Qed.

Theorem nat_digits_value z : 0 <= z -> dvalue (nat_digits z) = z.
Proof.
  intros H. unfold dvalue, nat_digits. rewrite <- of_uint_fold.
  rewrite DecimalN.Unsigned.of_to. lia.
Qed.

Lemma nat_digits_nonempty z : nat_digits z <> [].
Proof.
  unfold nat_digits. destruct (Z.to_N z) as [|p]; [cbn; discriminate|].
  cbn [N.to_uint]. pose proof (DecimalPos.Unsigned.to_uint_nonnil p) as H.
  destruct (Pos.to_uint p); [contradiction| | | | | | | | | |]; cbn; discriminate.
Qed.

Lemma digits_w_length w : forall x, length (digits_w w x) = w.
Proof. induction w as [|w IH]; intros x; cbn [digits_w]; [reflexivity|]. rewrite app_length, IH. cbn. lia. Qed.

Lemma fold_dstep_app l r acc : fold_left dstep (l ++ r) acc = fold_left dstep r (fold_left dstep l acc).
Proof. apply fold_left_app. Qed.

Theorem digits_w_value w : forall x, 0 <= x -> dvalue (digits_w w x) = x mod 10 ^ Z.of_nat w.
Proof.
  unfold dvalue. induction w as [|w IH]; intros x Hx; cbn [digits_w].
  - cbn. rewrite Z.mod_1_r. reflexivity.
  - rewrite fold_dstep_app, IH by (apply Z.div_pos; lia). cbn [fold_left]. unfold dstep.
    rewrite Nat2Z.inj_succ, Z.pow_succ_r by lia.
    assert (P : 0 < 10 ^ Z.of_nat w) by (apply Z.pow_pos_nonneg; lia).
    rewrite Z2N.id by (pose proof (Z.mod_pos_bound x 10 ltac:(lia)); lia).
    rewrite Z.rem_mul_r by lia. lia.
Qed.

Theorem d2_value z : 0 <= z < 100 -> dvalue (d2 z) = z.
Proof. intros H. unfold d2. rewrite digits_w_value by lia. apply Z.mod_small. cbn. lia. Qed.

(* ---------- widths (finite sweeps) --------------------------------------------------------- *)
Lemma d2_length z : length (d2 z) = 2%nat.
Proof. apply digits_w_length. Qed.

Lemma year_sweep4 : forall_range (fun z => Nat.eqb (length (nat_digits z)) 4) 1000 9000 = true.
Proof. vm_compute. reflexivity. Qed.
Lemma year_length y : 1000 <= y <= 9999 -> length (nat_digits y) = 4%nat.
Proof.
  intros H. apply Nat.eqb_eq. apply (forall_range_spec _ _ _ year_sweep4 y). cbn. lia.
Qed.

(* ---------- the 12-hour clock ---------------------------------------------------------------- *)
Lemma hour12_spec h : 0 <= h < 24 ->
  1 <= hour12 h <= 12 /\ h = hour12 h mod 12 + (if h <? 12 then 0 else 12).
Proof. intros H. unfold hour12. destruct (h mod 12 =? 0) eqn:C; destruct (h <? 12) eqn:D; lia. Qed.

(* ---------- mytimeformat: total, seven branches, field widths ---------------------------------- *)
Theorem time_format_branches t :
  match time_format_branch t with
  | 0 => dt_d t = 1 /\ dt_mo t = 1 /\ time_format t = nat_digits (dt_y t)
  | 1 => dt_d t = 1 /\ dt_mo t <> 1 /\ time_format t = month_name (dt_mo t)
  | 2 => dt_d t <> 1 /\ isoweekday t = 7 /\ dt_h t = 0 /\ dt_mi t = 0 /\ dt_s t = 0 /\
         time_format t = month_abbr (dt_mo t) ++ [SP] ++ d2 (dt_d t)
  | 3 => dt_d t <> 1 /\ isoweekday t <> 7 /\ dt_h t = 0 /\ dt_mi t = 0 /\ dt_s t = 0 /\
         time_format t = weekday_abbr (isoweekday t) ++ [SP] ++ d2 (dt_d t)
  | 4 => dt_d t <> 1 /\ dt_h t <> 0 /\ dt_mi t = 0 /\ dt_s t = 0 /\
         time_format t = d2 (hour12 (dt_h t)) ++ [SP] ++ ampm (dt_h t)
  | 5 => dt_d t <> 1 /\ dt_mi t <> 0 /\ dt_s t = 0 /\
         time_format t = d2 (dt_h t) ++ [COLON] ++ d2 (dt_mi t)
  | _ => dt_s t <> 0 /\ time_format t = [COLON] ++ d2 (dt_s t)
  end.
Proof.
  unfold time_format_branch, time_format.
  destruct (dt_d t =? 1) eqn:D; destruct (dt_mo t =? 1) eqn:M; cbn [andb];
    try (repeat split; lia || reflexivity).
  all: destruct (isoweekday t =? 7) eqn:W; destruct (dt_h t =? 0) eqn:H; destruct (dt_mi t =? 0) eqn:MI;
    destruct (dt_s t =? 0) eqn:S; cbn [andb]; repeat split; lia || reflexivity.
Qed.

Lemma time_format_branch_range t : 0 <= time_format_branch t <= 6.
Proof.
  unfold time_format_branch.
  repeat match goal with |- context [if ?c then _ else _] => destruct c end; lia.
Qed.

Lemma month_name_length m : (3 <= length (month_name m) <= 9)%nat.
Proof.
  unfold month_name. destruct m as [|p|p]; [cbn; lia| |cbn; lia].
  do 4 (try (destruct p as [p|p|])); cbn; lia.
Qed.

Lemma weekday_abbr_length w : length (weekday_abbr w) = 3%nat.
Proof.
  unfold weekday_abbr. destruct w as [|q|q]; [reflexivity| |reflexivity].
  do 3 (try (destruct q as [q|q|])); reflexivity.
Qed.

Lemma month_abbr_length m : length (month_abbr m) = 3%nat.
Proof.
  unfold month_abbr. rewrite firstn_length. pose proof (month_name_length m). lia.
Qed.

(* tickformat_total (time): on a valid instant of a year 1000..9999 the text is
   non-empty and has the width of its branch: 4 (%Y), 3..9 (%B), 6, 6, 5, 5, 3 *)
Theorem time_format_total t : valid t -> 1000 <= dt_y t ->
  match time_format_branch t with
  | 0 => length (time_format t) = 4%nat
  | 1 => (3 <= length (time_format t) <= 9)%nat
  | 2 | 3 => length (time_format t) = 6%nat
  | 4 | 5 => length (time_format t) = 5%nat
  | _ => length (time_format t) = 3%nat
  end.
Proof.
  intros V Hy. pose proof (time_format_branches t) as B.
  apply valid_unfold in V. destruct V as [Y W]. apply wf_unfold in W.
  destruct W as ([Hm Hd] & Hh & Hmi & Hs & _).
  pose proof (days_in_month_bounds (dt_y t) (dt_mo t)) as DB.
  pose proof (hour12_spec (dt_h t) Hh) as [H12 _].
  pose proof (time_format_branch_range t) as R.
  destruct (time_format_branch t) as [|p|p]; [| |lia].
  - destruct B as (_ & _ & ->). apply year_length. lia.
  - do 3 (try (destruct p as [p|p|]; try lia)).
    all: cbv beta iota in B |- *.
    all: repeat match goal with H : _ /\ _ |- _ => destruct H end.
    all: match goal with E : time_format _ = _ |- _ => rewrite E end.
    all: rewrite ?app_length, ?d2_length, ?weekday_abbr_length, ?month_abbr_length; cbn [length].
    all: try (unfold ampm; destruct (dt_h t <? 12); cbn [length]).
    all: try apply month_name_length.
    all: lia.
Qed.

(* ---------- "{:.nf}".format(x) --------------------------------------------------------------- *)
(* the text is [-] integer-part [. exactly n fraction digits]; the two digit
   groups read back as ip and fp with ip * 10^n + fp = |rounded scaled integer| *)
Theorem fixed_digits_spec n z : 0 <= n ->
  exists ip fp,
    fixed_digits n z = nat_digits ip ++ (if n <=? 0 then [] else DOT :: digits_w (Z.to_nat n) fp) /\
    0 <= ip /\ 0 <= fp < 10 ^ n /\ ip * 10 ^ n + fp = Z.abs z /\
    dvalue (nat_digits ip) = ip /\ dvalue (digits_w (Z.to_nat n) fp) = fp /\
    length (digits_w (Z.to_nat n) fp) = Z.to_nat n.
Proof.
  intros Hn. assert (P : 0 < 10 ^ n) by (apply Z.pow_pos_nonneg; lia).
  exists (Z.abs z / 10 ^ n), (Z.abs z mod 10 ^ n).
  pose proof (Z.mod_pos_bound (Z.abs z) (10 ^ n) P) as B.
  pose proof (Z.div_mod (Z.abs z) (10 ^ n) ltac:(lia)) as E.
  assert (I : 0 <= Z.abs z / 10 ^ n) by (apply Z.div_pos; lia).
  split; [reflexivity|]. split; [exact I|]. split; [exact B|]. split; [lia|].
  split; [apply nat_digits_value; exact I|]. split; [|apply digits_w_length].
  rewrite digits_w_value by lia. rewrite Z2Nat.id by lia. apply Z.mod_small. exact B.
Qed.

Theorem fixed_format_total n x : fixed_format n x <> [].
Proof.
  unfold fixed_format, fixed_digits. destruct (Qlt_le_dec x 0); [discriminate|]. cbn [app].
  pose proof (nat_digits_nonempty (Z.abs (fmt n x) / 10 ^ n)) as H.
  destruct (nat_digits (Z.abs (fmt n x) / 10 ^ n)); [contradiction|discriminate].
Qed.

Lemma decimals_nonneg v : 0 <= decimals v.
Proof. unfold decimals. destruct (Qeq_bool v 0); lia. Qed.

Lemma Qabs_scaled z n t : (0 <= n) -> (inject_Z z / pow10 n == t)%Q ->
  (inject_Z (Z.abs z) / pow10 n == if Qlt_le_dec t 0 then - t else t)%Q.
Proof.
  intros Hn E. pose proof (pow10_pos n) as P.
  assert (Ez : (inject_Z z == t * pow10 n)%Q).
  { rewrite <- E. field. intros C. rewrite C in P. exact (Qlt_irrefl _ P). }
  destruct (Qlt_le_dec t 0) as [L|L].
  - assert (z < 0).
    { destruct (Z_lt_le_dec z 0) as [G|G]; [exact G|exfalso].
      assert ((0 <= inject_Z z)%Q) by (change 0%Q with (inject_Z 0); rewrite <- Zle_Qle; exact G).
      nra. }
    rewrite Z.abs_neq by lia. rewrite inject_Z_opp, Ez. field.
    intros C. rewrite C in P. exact (Qlt_irrefl _ P).
  - assert (0 <= z).
    { destruct (Z_lt_le_dec z 0) as [G|G]; [exfalso|exact G].
      assert ((inject_Z z < 0)%Q) by (change 0%Q with (inject_Z 0); rewrite <- Zlt_Qlt; exact G).
      nra. }
    rewrite Z.abs_eq by lia. exact E.
Qed.

(* the text of a linear tick denotes the tick EXACTLY (ticks are multiples of the step
   and the step has at most `decimals` decimals): sign, integer part and n-digit
   fraction with ip + fp / 10^n = |t| *)
Theorem lin_tick_text_exact a b m t : ~ (a == b)%Q -> 0 < m -> In t (ticks a b m) ->
  let n := decimals (dom_step a b m) in
  exists ip fp,
    lin_tick_format a b m t =
      (if Qlt_le_dec t 0 then [MINUS] else []) ++ nat_digits ip ++
      (if n <=? 0 then [] else DOT :: digits_w (Z.to_nat n) fp) /\
    dvalue (nat_digits ip) = ip /\ dvalue (digits_w (Z.to_nat n) fp) = fp /\
    length (digits_w (Z.to_nat n) fp) = Z.to_nat n /\ 0 <= ip /\ 0 <= fp < 10 ^ n /\
    (inject_Z ip + inject_Z fp / pow10 n == if Qlt_le_dec t 0 then - t else t)%Q.
Proof.
  intros Hab Hm Hin n. pose proof (decimals_nonneg (dom_step a b m)) as Hn. fold n in Hn.
  pose proof (fmt_exact a b m Hab Hm) as F. rewrite Forall_forall in F.
  specialize (F t Hin). fold n in F. unfold fmt_value in F.
  destruct (fixed_digits_spec n (fmt n t) Hn) as (ip & fp & E & I & B & S & V1 & V2 & L).
  exists ip, fp. unfold lin_tick_format, fixed_format. fold n. rewrite E.
  split; [reflexivity|]. repeat split; try assumption; try lia.
  rewrite <- (Qabs_scaled (fmt n t) n t Hn F), <- S.
  rewrite inject_Z_plus, inject_Z_mult. rewrite (pow10_nonneg_Z n Hn).
  pose proof (pow10_pos n) as P. rewrite (pow10_nonneg_Z n Hn) in P.
  field. intros C. rewrite C in P. exact (Qlt_irrefl _ P).
Qed.
