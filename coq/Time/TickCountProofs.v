(* Property C16, the counting clauses: consecutive gaps of ts_ticks differ by
   at most a factor of two (tt_gap_ratio), a domain shorter than m
   milliseconds gets one tick per millisecond (tt_short_domain), and the
   number of ticks lies between m/2.4 - 1 and 2.4 m + 1 (tt_count).
   Built on Time/TickEnum.v (separation/density of a tick set) and
   Time/TickRows.v (the rows of the method table). *)
From Coq Require Import ZArith QArith Qround Qpower Lia Lqa ZifyBool List Bool Sorted.
From Labella Require Import Time.Calendar Time.CalendarProofs Time.Interval Time.IntervalSpec
  Time.IntervalProofs Time.UnitProofs Time.TimeScale Time.TimeScaleProofs Time.TimeTicks
  Time.TimeTicksProofs Time.TickEnum Time.TickRows Time.LinStepLink Time.Day2Count.
Import ListNotations.
Ltac Zify.zify_post_hook ::= Z.to_euclidean_division_equations.
Open Scope Z_scope.

Local Notation D := 86400000000.

(* ---------- which methods the table can produce --------------------------- *)
Lemma nth_In_or_default : forall A (l : list A) n d, In (nth n l d) l \/ nth n l d = d.
Proof.
  intros A l n d. destruct (Nat.lt_ge_cases n (length l)) as [H|H].
  - left. apply nth_In. assumption.
  - right. apply nth_overflow. assumption.
Qed.

Lemma method_cases e0 e1 m meth : tick_method_of e0 e1 m = Ok meth ->
  (exists st, meth = TMillis st) \/ (exists sk, meth = TUnit UYear sk) \/
  (exists u k, meth = TUnit u (inject_Z k) /\ In (u, k) scale_methods).
Proof.
  unfold tick_method_of. destruct (m <=? 0); [discriminate|]. cbv zeta.
  destruct (Nat.eqb _ (length scale_steps)).
  - destruct (lin_tick_step _ _ m); try discriminate. intros [= <-]. right. left. eexists; reflexivity.
  - destruct (Nat.eqb _ 0).
    + destruct (lin_tick_step _ _ m); try discriminate. intros [= <-]. left. eexists; reflexivity.
    + match goal with |- context [nth ?p scale_methods ?d] =>
        destruct (nth_In_or_default _ scale_methods p d) as [I|I];
        destruct (nth p scale_methods d) as [u k] eqn:E end; intros [= <-].
      * right. right. exists u, k. auto.
      * injection I as -> ->. right. left. eexists; reflexivity.
Qed.

Lemma skip_of_inject k : 1 <= k -> skip_of (inject_Z k) = k.
Proof.
  intros H. unfold skip_of.
  assert (E : Qle_bool 1 (inject_Z k) = true).
  { apply Qle_bool_iff. unfold Qle, inject_Z. cbn. lia. }
  rewrite E. apply Qfloor_Z.
Qed.

Lemma skip_of_pos sk : 1 <= skip_of sk.
Proof.
  unfold skip_of. destruct (Qle_bool 1 sk) eqn:E; [|lia].
  apply Qle_bool_iff in E. rewrite <- (Qfloor_Z 1). apply Qfloor_resp_le. exact E.
Qed.

(* every row of the table: separation gmin, density gmax, gmax <= 2 gmin *)
Lemma table_rows u k : In (u, k) scale_methods ->
  exists gmin gmax, row_ok (tickset u k) gmin gmax /\ gmax <= 2 * gmin.
Proof.
  intros H. unfold scale_methods in H. cbn [In] in H.
  repeat (destruct H as [[= <- <-]|H]);
    try (eexists; eexists; split; [apply second_rows; cbn; tauto|lia]);
    try (eexists; eexists; split; [apply minute_rows; cbn; tauto|lia]);
    try (eexists; eexists; split; [apply hour_rows; cbn; tauto|lia]).
  - eexists; eexists; split; [apply day1_row|lia].
  - eexists; eexists; split; [apply day2_row|lia].
  - eexists; eexists; split; [apply week_row|lia].
  - eexists; eexists; split; [apply month1_row|lia].
  - eexists; eexists; split; [apply month3_row|lia].
  - eexists; eexists; split; [apply (year_row 1); lia|lia].
  - contradiction.
Qed.

(* ---------- millisecond ticks as an enumeration ---------------------------- *)
Lemma ms_loop_enum fuel : forall cur stop st l, 0 < st -> cur mod st = 0 ->
  ms_loop fuel cur stop st = Ok l ->
  forall z, In z (map to_us l) <-> z mod (1000 * st) = 0 /\ cur * 1000 <= z < stop * 1000.
Proof.
  induction fuel as [|fuel IH]; intros cur stop st l Hst Hc H z; cbn [ms_loop] in H;
    destruct (cur <? stop) eqn:C; try discriminate.
  - injection H as <-. simpl. split; [contradiction|lia].
  - apply rbind_ok in H. destruct H as (t & E1 & H).
    apply rbind_ok in H. destruct H as (rest & E2 & H). injection H as <-.
    apply of_us_chk_ok in E1. destruct E1 as [Hv Et].
    assert (Hc' : (cur + st) mod st = 0).
    { rewrite Z.add_mod, Hc, Z.mod_same by lia. reflexivity. }
    specialize (IH _ _ _ _ Hst Hc' E2 z). cbn [map In]. rewrite IH, Et.
    apply Z.mod_divide in Hc; [|lia]. destruct Hc as [q ->].
    split.
    + intros [<-|[Hm R]].
      * split; [|lia]. replace (q * st * 1000) with (q * (1000 * st)) by lia. apply Z.mod_mul. lia.
      * split; [assumption|lia].
    + intros [Hm R]. apply Z.mod_divide in Hm; [|lia]. destruct Hm as [p ->].
      destruct (Z.eq_dec p q) as [->|N]; [left; lia|right].
      split; [apply Z.mod_mul; lia|]. assert (q < p) by nia. nia.
  - injection H as <-. simpl. split; [contradiction|lia].
Qed.

Lemma ms_range_enumerates t0 t1 step l : ms_resolution t0 -> ms_resolution t1 ->
  ms_range t0 t1 step = Ok l ->
  enumerates (fun z => z mod (1000 * Z.max 1 (qtrunc step)) = 0) (to_us t0) (to_us t1) (map to_us l).
Proof.
  intros M0 M1 H. pose proof (ms_range_spec _ _ _ _ M0 M1 H) as (_ & S & _).
  split; [apply SSorted_map_to_us; exact S|].
  unfold ms_range in H. cbv zeta in H. set (st := Z.max 1 (qtrunc step)) in *.
  assert (Hst : 0 < st) by (subst st; lia).
  pose proof (ceil_mult (qtrunc (to_ms t0)) st Hst) as Hc.
  pose proof (qtrunc_to_ms t0 M0) as E0. pose proof (qtrunc_to_ms t1 M1) as E1.
  set (a := qtrunc (to_ms t0)) in *. set (b := qtrunc (to_ms t1)) in *.
  set (first := - (- a / st) * st) in *.
  assert (Hf : first mod st = 0) by (subst first; apply Z.mod_mul; lia).
  intro z. rewrite (ms_loop_enum _ _ _ _ _ Hst Hf H z). rewrite <- E0, <- E1.
  split; intros [Hm R]; (split; [assumption|]); [lia|].
  (* no multiple of 1000 st between a and the first multiple of st above it *)
  split; [|lia]. apply Z.mod_divide in Hm; [|lia]. destruct Hm as [p ->].
  apply Z.mod_divide in Hf; [|lia]. destruct Hf as [q Hq].
  destruct (Z_lt_le_dec p q) as [L|L]; [|nia]. exfalso.
  assert (p * st <= (q - 1) * st) by nia. nia.
Qed.

(* ---------- tt_gap_ratio --------------------------------------------------- *)
(* all gaps of a tick list lie between some g and 2 g *)
Definition gaps_within_factor_two (l : list dt) : Prop :=
  exists g, 0 < g /\ Sorted (fun x y => g <= to_us y - to_us x <= 2 * g) l.

Lemma gaps_from_row (T : Z -> Prop) gmin gmax lo hi l :
  row_ok T gmin gmax -> gmax <= 2 * gmin -> enumerates T lo hi (map to_us l) ->
  gaps_within_factor_two l.
Proof.
  intros (P & _ & S & Dn) F EN. exists gmin. split; [assumption|].
  apply (Sorted_map_to_us (fun a b => gmin <= b - a <= 2 * gmin)).
  pose proof (enum_gaps T gmin gmax S Dn lo hi _ EN) as G.
  eapply Sorted_ind with (P := fun l => Sorted (fun a b => gmin <= b - a <= 2 * gmin) l) in G; [exact G|constructor|].
  intros a l' _ IH HR. constructor; [exact IH|]. destruct HR; constructor. lia.
Qed.

Theorem tt_gap_ratio d0 d1 m l :
  valid d0 -> valid d1 -> ms_resolution d0 -> ms_resolution d1 ->
  ts_ticks d0 d1 m = Ok l -> gaps_within_factor_two l.
Proof.
  intros V0 V1 M0 M1 H.
  destruct (ts_ticks_run d0 d1 m l V0 V1 H) as (meth & t1 & EM & Vt1 & Et1 & R).
  destruct (dom_lo_hi d0 d1) as [Hle Hc].
  assert (Vlo : valid (dom_lo d0 d1)) by (destruct Hc as [[-> _]|[-> _]]; assumption).
  assert (Mlo : ms_resolution (dom_lo d0 d1)) by (destruct Hc as [[-> _]|[-> _]]; assumption).
  assert (Mhi : ms_resolution (dom_hi d0 d1)) by (destruct Hc as [[_ ->]|[_ ->]]; assumption).
  assert (Mt1 : ms_resolution t1) by (unfold ms_resolution in *; rewrite Et1; lia).
  destruct (method_cases _ _ _ _ EM) as [[st ->]|[[sk ->]|(u & k & -> & I)]].
  - pose proof (ms_range_enumerates _ _ _ _ Mlo Mt1 R) as EN.
    refine (gaps_from_row _ _ _ _ _ l (multiples_row _ _) _ EN); lia.
  - pose proof (range_enumerates _ _ _ _ _ Vlo Vt1 Mlo R) as EN.
    pose proof (skip_of_pos sk) as Hsk.
    refine (gaps_from_row _ _ _ _ _ l (year_row _ Hsk) _ EN). lia.
  - assert (Hk : 1 <= k).
    { unfold scale_methods in I. cbn [In] in I. repeat (destruct I as [[= <- <-]|I]); try lia; try contradiction. }
    rewrite (skip_of_inject k Hk) in R.
    pose proof (range_enumerates _ _ _ _ _ Vlo Vt1 Mlo R) as EN.
    destruct (table_rows u k I) as (gmin & gmax & RO & F).
    eapply gaps_from_row; eassumption.
Qed.

(* ---------- tt_short_domain ------------------------------------------------ *)
Lemma ilog10_down_le fuel : forall q e r, ilog10_down fuel q e = Some r -> r <= e.
Proof.
  induction fuel as [|fuel IH]; intros q e r H; cbn [ilog10_down] in H;
    destruct (Qle_bool 1 q); try discriminate; try (injection H as <-; lia).
  apply IH in H. lia.
Qed.

Lemma ilog10_small q r : (q < 1)%Q -> ilog10 q = Some r -> r <= -1.
Proof.
  intros Hq H. unfold ilog10 in H.
  assert (E : Qle_bool 1 q = false).
  { destruct (Qle_bool 1 q) eqn:B; [|reflexivity]. apply Qle_bool_iff in B. lra. }
  rewrite E in H. destruct (ilog10_fuel q) as [|f]; cbn [ilog10_down] in H; rewrite E in H; [discriminate|].
  apply ilog10_down_le in H. lia.
Qed.

Lemma Qpower10_le_tenth e : e <= -1 -> (Qpower 10 e <= 1 # 10)%Q.
Proof.
  intros H. change (1 # 10)%Q with (Qpower 10 (-1)). apply Qpower_le_compat_l; [assumption|]. discriminate.
Qed.

Lemma qtrunc_le_one q : (q <= 1)%Q -> qtrunc q <= 1.
Proof.
  destruct q as [n d]. unfold Qle, qtrunc. cbn [Qnum Qden]. intros H.
  destruct (Z_lt_le_dec n 0) as [N|N].
  - pose proof (Z.quot_opp_l (- n) (Zpos d) ltac:(lia)) as E. rewrite Z.opp_involutive in E.
    pose proof (Z.quot_pos (- n) (Zpos d) ltac:(lia) ltac:(lia)). lia.
  - rewrite Z.quot_div_nonneg by lia. apply Z.div_le_upper_bound; lia.
Qed.

(* a span shorter than m milliseconds: the step is at most 1, i.e. every millisecond *)
Lemma short_step lo hi m st : (lo <= hi)%Q -> (hi - lo < inject_Z m)%Q ->
  lin_tick_step lo hi m = Ok st -> Z.max 1 (qtrunc st) = 1.
Proof.
  intros Hle Hs H. unfold lin_tick_step in H. cbv zeta in H.
  destruct (Qeq_bool (hi - lo) 0) eqn:E0; [injection H as <-; reflexivity|].
  destruct (m <=? 0) eqn:Cm; [discriminate|].
  apply Qeq_bool_neq in E0.
  assert (Hsp : (0 < hi - lo)%Q) by (destruct (Qlt_le_dec 0 (hi - lo)); [assumption|exfalso; apply E0; lra]).
  pose proof (inject_Z_pos m ltac:(lia)) as Hm.
  assert (Hq : ((hi - lo) / inject_Z m < 1)%Q) by (apply Qlt_shift_div_r; lra).
  destruct (ilog10 ((hi - lo) / inject_Z m)) as [e|] eqn:El; [|discriminate].
  pose proof (ilog10_small _ _ Hq El) as He. pose proof (Qpower10_le_tenth e He) as P.
  assert (P0 : (0 < Qpower 10 e)%Q) by (apply Qpower_0_lt; reflexivity).
  injection H as <-.
  assert ((if Qle_bool (inject_Z m / (hi - lo) * Qpower 10 e) (15 # 100) then Qpower 10 e * 10
           else if Qle_bool (inject_Z m / (hi - lo) * Qpower 10 e) (35 # 100) then Qpower 10 e * 5
           else if Qle_bool (inject_Z m / (hi - lo) * Qpower 10 e) (75 # 100) then Qpower 10 e * 2
           else Qpower 10 e) <= 1)%Q.
  { repeat match goal with |- context [if ?c then _ else _] => destruct c end; lra. }
  pose proof (qtrunc_le_one _ H). lia.
Qed.

Lemma ms_loop_every_ms fuel : forall cur stop l, ms_loop fuel cur stop 1 = Ok l ->
  map to_us l = map (fun i => (cur + Z.of_nat i) * 1000) (seq 0 (Z.to_nat (stop - cur))).
Proof.
  induction fuel as [|fuel IH]; intros cur stop l H; cbn [ms_loop] in H;
    destruct (cur <? stop) eqn:C; try discriminate.
  - injection H as <-. replace (Z.to_nat (stop - cur)) with 0%nat by lia. reflexivity.
  - apply rbind_ok in H. destruct H as (t & E1 & H).
    apply rbind_ok in H. destruct H as (rest & E2 & H). injection H as <-.
    apply of_us_chk_ok in E1. destruct E1 as [_ Et].
    replace (Z.to_nat (stop - cur)) with (S (Z.to_nat (stop - (cur + 1)))) by lia.
    cbn [seq map]. rewrite Et, (IH _ _ _ E2), <- seq_shift, map_map.
    f_equal; [lia|]. apply map_ext. intro i. lia.
  - injection H as <-. replace (Z.to_nat (stop - cur)) with 0%nat by lia. reflexivity.
Qed.

Lemma short_method e0 e1 m meth : (e0 <= e1)%Q -> (e1 - e0 < inject_Z m)%Q -> 0 < m ->
  tick_method_of e0 e1 m = Ok meth -> exists st, meth = TMillis st /\ Z.max 1 (qtrunc st) = 1.
Proof.
  intros Hge Hspan Hm EM.
  assert (Hb : bisect scale_steps ((e1 - e0) / inject_Z m) = 0%nat).
  { unfold scale_steps. cbn [bisect].
    assert (Qle_bool (inject_Z 1000) ((e1 - e0) / inject_Z m) = false) as ->; [|reflexivity].
    destruct (Qle_bool (inject_Z 1000) ((e1 - e0) / inject_Z m)) eqn:B; [|reflexivity].
    apply Qle_bool_iff in B. pose proof (inject_Z_pos m Hm) as P.
    assert (((e1 - e0) / inject_Z m < 1)%Q) by (apply Qlt_shift_div_r; lra).
    change (inject_Z 1000) with 1000%Q in B. lra. }
  unfold tick_method_of in EM. destruct (m <=? 0) eqn:Cm; [lia|]. cbv zeta in EM.
  rewrite Hb in EM. change (Nat.eqb 0 (length scale_steps)) with false in EM.
  change (Nat.eqb 0 0) with true in EM. cbv iota in EM.
  destruct (lin_tick_step e0 e1 m) as [st| |] eqn:Es; try discriminate. injection EM as <-.
  exists st. split; [reflexivity|]. exact (short_step _ _ _ _ Hge Hspan Es).
Qed.

(* a domain shorter than m milliseconds gets exactly one tick per millisecond,
   from its first to its last instant *)
Theorem tt_short_domain d0 d1 m l :
  valid d0 -> valid d1 -> ms_resolution d0 -> ms_resolution d1 ->
  let lo := to_us (dom_lo d0 d1) in let hi := to_us (dom_hi d0 d1) in
  (hi - lo) / 1000 < m ->
  ts_ticks d0 d1 m = Ok l ->
  map to_us l = map (fun i => lo + 1000 * Z.of_nat i) (seq 0 (Z.to_nat ((hi - lo) / 1000 + 1))).
Proof.
  intros V0 V1 M0 M1 lo hi Hs H.
  destruct (ts_ticks_run d0 d1 m l V0 V1 H) as (meth & t1 & EM & Vt1 & Et1 & R).
  destruct (dom_lo_hi d0 d1) as [Hle Hc]. fold lo hi in Hle, Et1.
  assert (Mlo : ms_resolution (dom_lo d0 d1)) by (destruct Hc as [[-> _]|[-> _]]; assumption).
  assert (Mhi : ms_resolution (dom_hi d0 d1)) by (destruct Hc as [[_ ->]|[_ ->]]; assumption).
  assert (Mt1 : ms_resolution t1) by (unfold ms_resolution in *; rewrite Et1; fold hi in Mhi; lia).
  pose proof (qtrunc_to_ms _ Mlo) as Q0. pose proof (qtrunc_to_ms _ Mt1) as Q1.
  fold lo in Q0. rewrite Et1 in Q1.
  unfold ms_resolution in Mlo, Mhi. fold lo in Mlo. fold hi in Mhi.
  assert (Hm : 0 < m) by lia.
  assert (Ed : (to_ms (dom_hi d0 d1) - to_ms (dom_lo d0 d1) == (hi - lo) # 1000)%Q) by apply to_ms_diff.
  assert (Hspan : (to_ms (dom_hi d0 d1) - to_ms (dom_lo d0 d1) < inject_Z m)%Q).
  { rewrite Ed. unfold Qlt, inject_Z. cbn [Qnum Qden]. lia. }
  assert (Hge : (to_ms (dom_lo d0 d1) <= to_ms (dom_hi d0 d1))%Q).
  { assert (0 <= to_ms (dom_hi d0 d1) - to_ms (dom_lo d0 d1))%Q; [|lra].
    rewrite Ed. unfold Qle. cbn [Qnum Qden]. lia. }
  destruct (short_method _ _ _ _ Hge Hspan Hm EM) as (st & -> & E1).
  unfold ms_range in R. cbv zeta in R. rewrite E1 in R.
  apply ms_loop_every_ms in R. rewrite R. clear R.
  set (a := qtrunc (to_ms (dom_lo d0 d1))) in *. set (b := qtrunc (to_ms t1)) in *. clearbody a b.
  clear - Q0 Q1 Mlo Mhi. clearbody lo hi.
  replace (- (- a / 1) * 1) with a by lia.
  replace (Z.to_nat (b - a)) with (Z.to_nat ((hi - lo) / 1000 + 1)) by lia.
  apply map_ext. intro i. lia.
Qed.

(* ---------- tt_count: arithmetic ------------------------------------------- *)
(* m / 2.4 - 1 <= n <= 2.4 m + 1, on integers *)
Definition count_ok (m n : Z) : Prop := 10 * m <= 24 * (n + 1) /\ 10 * (n - 1) <= 24 * m.

(* n ticks enumerate a row with separation gmin and density gmax over a window
   of X + 1000 microseconds (X = the span, 1000 = the extra millisecond) *)
Definition window_count (X gmin gmax n : Z) : Prop :=
  (n - 1) * gmin <= X + 999 /\ X + 1000 < (n + 1) * gmax.

Lemma count_from_window m X gmin gmax n : 0 < m -> 0 < gmin -> 0 < gmax ->
  window_count X gmin gmax n ->
  10 * (X + 999) <= 24 * m * gmin -> 10 * m * gmax <= 24 * (X + 1000) ->
  count_ok m n.
Proof.
  intros Hm Hg Hg' [W1 W2] U L. unfold count_ok. split.
  - assert (10 * m * gmax < 24 * (n + 1) * gmax) by nia.
    destruct (Z_le_gt_dec (10 * m) (24 * (n + 1))) as [Q|Q]; [assumption|exfalso].
    assert (24 * (n + 1) * gmax <= 10 * m * gmax) by nia. lia.
  - assert (10 * (n - 1) * gmin <= 24 * m * gmin) by nia.
    destruct (Z_le_gt_dec (10 * (n - 1)) (24 * m)) as [Q|Q]; [assumption|exfalso].
    assert (24 * m * gmin < 10 * (n - 1) * gmin) by nia. lia.
Qed.

Lemma sq_le_le a b : 0 <= a -> 0 <= b -> a * a <= b * b -> a <= b.
Proof. intros. nia. Qed.

(* the chosen step is the upper neighbour `hi` of the target (pick = i) *)
Lemma count_caseA m X lo hi gmin gmax n : 0 < m -> 0 <= X -> 0 < lo -> 0 < hi -> 0 < gmin -> 0 < gmax ->
  lo * hi * (1000 * m) * (1000 * m) <= X * X -> X < hi * (1000 * m) ->
  window_count X gmin gmax n ->
  10000 * hi + 9990 <= 24 * gmin -> 100 * gmax * gmax <= 576000000 * lo * hi ->
  count_ok m n.
Proof.
  intros Hm HX Hlo Hhi Hg Hg' Sq Lt W N1 N2.
  apply (count_from_window m X gmin gmax n); try assumption.
  - assert (10 * (X + 999) <= (10000 * hi + 9990) * m) by nia. nia.
  - assert (10 * m * gmax <= 24 * X); [|lia].
    apply sq_le_le; [nia|lia|].
    assert (E1 : 10 * m * gmax * (10 * m * gmax) = (100 * gmax * gmax) * (m * m)) by ring.
    assert (E2 : 24 * X * (24 * X) = 576 * (X * X)) by ring.
    assert (E3 : 576 * (lo * hi * (1000 * m) * (1000 * m)) = (576000000 * lo * hi) * (m * m)) by ring.
    rewrite E1, E2.
    assert (0 <= m * m) by nia.
    assert ((100 * gmax * gmax) * (m * m) <= (576000000 * lo * hi) * (m * m)) by (apply Z.mul_le_mono_nonneg_r; assumption).
    lia.
Qed.

(* the chosen step is the lower neighbour `lo` of the target (pick = i - 1) *)
Lemma count_caseB m X lo hi gmin gmax n : 0 < m -> 0 <= X -> 0 < lo -> 0 < hi -> 0 < gmin -> 0 < gmax ->
  X * X < lo * hi * (1000 * m) * (1000 * m) -> lo * (1000 * m) <= X ->
  window_count X gmin gmax n ->
  9990 <= 24 * gmin ->
  100000000 * lo * hi <= (24 * gmin - 9990) * (24 * gmin - 9990) ->
  10 * gmax <= 24000 * lo ->
  count_ok m n.
Proof.
  intros Hm HX Hlo Hhi Hg Hg' Sq Le W N0 N1 N2.
  apply (count_from_window m X gmin gmax n); try assumption.
  - assert (10 * X <= (24 * gmin - 9990) * m); [|nia].
    apply sq_le_le; [lia|nia|].
    assert (E1 : 10 * X * (10 * X) = 100 * (X * X)) by ring.
    assert (E2 : (24 * gmin - 9990) * m * ((24 * gmin - 9990) * m)
                 = ((24 * gmin - 9990) * (24 * gmin - 9990)) * (m * m)) by ring.
    assert (E3 : 100 * (lo * hi * (1000 * m) * (1000 * m)) = (100000000 * lo * hi) * (m * m)) by ring.
    rewrite E1, E2.
    assert (0 <= m * m) by nia.
    assert ((100000000 * lo * hi) * (m * m) <= ((24 * gmin - 9990) * (24 * gmin - 9990)) * (m * m))
      by (apply Z.mul_le_mono_nonneg_r; assumption).
    lia.
  - assert (10 * m * gmax <= 24 * (lo * (1000 * m))); [|lia].
    replace (24 * (lo * (1000 * m))) with ((24000 * lo) * m) by ring.
    replace (10 * m * gmax) with ((10 * gmax) * m) by ring.
    apply Z.mul_le_mono_nonneg_r; lia.
Qed.

(* ---------- tt_count: reading the method table ----------------------------- *)
Lemma bisect_spec : forall l x,
  (forall j, (j < bisect l x)%nat -> (inject_Z (nth j l 0%Z) <= x)%Q) /\
  ((bisect l x < length l)%nat -> (x < inject_Z (nth (bisect l x) l 0%Z))%Q).
Proof.
  induction l as [|a l IH]; intro x; cbn [bisect].
  - split; [intros j H; lia|cbn; lia].
  - destruct (Qle_bool (inject_Z a) x) eqn:E.
    + destruct (IH x) as [I1 I2]. split.
      * intros [|j] H; cbn [nth]; [apply Qle_bool_iff; exact E|apply I1; lia].
      * intro H. cbn [nth]. apply I2. cbn [length] in H. lia.
    + split; [intros j H; lia|]. intros _. cbn [nth].
      apply Qnot_le_lt. intro L. apply Qle_bool_iff in L. congruence.
Qed.

Section Target.
  (* the span is X microseconds, the count m; target = X / (1000 m) milliseconds *)
  Variables (X m : Z) (t : Q).
  Hypothesis Hm : 0 < m.
  Hypothesis HX : 0 <= X.
  Hypothesis Ht : (t == (X # 1000) / inject_Z m)%Q.

  Lemma target_as_ratio : (t * inject_Z (1000 * m) == inject_Z X)%Q.
  Proof.
    rewrite Ht. rewrite inject_Z_mult.
    assert (E : (X # 1000 == inject_Z X / 1000)%Q).
    { unfold Qeq, Qdiv, Qmult, Qinv, inject_Z. cbn. lia. }
    rewrite E. change (inject_Z 1000) with 1000%Q. field.
    pose proof (inject_Z_pos m Hm). lra.
  Qed.

  Lemma target_ge a : (inject_Z a <= t)%Q <-> a * (1000 * m) <= X.
  Proof.
    pose proof target_as_ratio as E.
    assert (P : (0 < inject_Z (1000 * m))%Q) by (apply inject_Z_pos; lia).
    rewrite Zle_Qle, inject_Z_mult, <- E. split; intro H; nra.
  Qed.

  Lemma target_lt a : (t < inject_Z a)%Q <-> X < a * (1000 * m).
  Proof.
    pose proof target_as_ratio as E.
    assert (P : (0 < inject_Z (1000 * m))%Q) by (apply inject_Z_pos; lia).
    rewrite Zlt_Qlt, inject_Z_mult, <- E. split; intro H; nra.
  Qed.

  (* the ratio test of tickMethod: hi / target <= target / lo *)
  Lemma ratio_test lo hi : 0 < lo -> 0 < hi -> (0 < t)%Q ->
    Qle_bool (inject_Z hi / t) (t / inject_Z lo) = true <->
    lo * hi * (1000 * m) * (1000 * m) <= X * X.
  Proof.
    intros Hlo Hhi Htp. pose proof target_as_ratio as E.
    assert (P : (0 < inject_Z (1000 * m))%Q) by (apply inject_Z_pos; lia).
    pose proof (inject_Z_pos lo Hlo) as Plo. pose proof (inject_Z_pos hi Hhi) as Phi.
    rewrite Qle_bool_iff.
    assert (A : (inject_Z hi / t <= t / inject_Z lo <-> inject_Z lo * inject_Z hi <= t * t)%Q).
    { assert (E1 : (inject_Z hi / t * (t * inject_Z lo) == inject_Z lo * inject_Z hi)%Q) by (field; lra).
      assert (E2 : (t / inject_Z lo * (t * inject_Z lo) == t * t)%Q) by (field; lra).
      assert (Pt : (0 < t * inject_Z lo)%Q) by nra.
      split; intro H.
      - rewrite <- E1, <- E2. apply Qmult_le_compat_r; lra.
      - destruct (Qlt_le_dec (t / inject_Z lo) (inject_Z hi / t)) as [Q|Q]; [|assumption].
        exfalso. assert ((t / inject_Z lo) * (t * inject_Z lo) < (inject_Z hi / t) * (t * inject_Z lo))%Q
          by (apply Qmult_lt_compat_r; assumption). lra. }
    rewrite A. rewrite Zle_Qle. rewrite !inject_Z_mult. rewrite <- E.
    set (M := inject_Z (1000 * m)) in *. rewrite <- (inject_Z_mult 1000 m). fold M.
    split; intro H.
    - assert ((inject_Z lo * inject_Z hi) * (M * M) <= (t * t) * (M * M))%Q
        by (apply Qmult_le_compat_r; [assumption|nra]). lra.
    - destruct (Qlt_le_dec (t * t) (inject_Z lo * inject_Z hi)) as [Q|Q]; [|assumption].
      exfalso. assert ((t * t) * (M * M) < (inject_Z lo * inject_Z hi) * (M * M))%Q
        by (apply Qmult_lt_compat_r; [nra|assumption]). lra.
  Qed.
End Target.

(* separation and density of the 18 rows, in microseconds *)
Definition row_bounds : list (Z * Z) :=
  [(1000000, 1000000); (5000000, 5000000); (15000000, 15000000); (30000000, 30000000);
   (60000000, 60000000); (300000000, 300000000); (900000000, 900000000); (1800000000, 1800000000);
   (3600000000, 3600000000); (10800000000, 10800000000); (21600000000, 21600000000);
   (43200000000, 43200000000);
   (D, D); (D, 2 * D); (7 * D, 7 * D); (28 * D, 31 * D); (84 * D, 93 * D); (365 * D, 366 * D)].

Lemma rows_table : forall p, (p < 18)%nat ->
  row_ok (tickset (fst (nth p scale_methods (UYear, 1))) (snd (nth p scale_methods (UYear, 1))))
         (fst (nth p row_bounds (0, 0))) (snd (nth p row_bounds (0, 0))).
Proof.
  intros p Hp.
  destruct p as [|[|[|[|[|[|[|[|[|[|[|[|[|[|[|[|[|[|p]]]]]]]]]]]]]]]]]]; cbn [nth scale_methods row_bounds fst snd]; try lia.
  - apply (second_rows 1); cbn; tauto.
  - apply (second_rows 5); cbn; tauto.
  - apply (second_rows 15); cbn; tauto.
  - apply (second_rows 30); cbn; tauto.
  - apply (minute_rows 1); cbn; tauto.
  - apply (minute_rows 5); cbn; tauto.
  - apply (minute_rows 15); cbn; tauto.
  - apply (minute_rows 30); cbn; tauto.
  - apply (hour_rows 1); cbn; tauto.
  - apply (hour_rows 3); cbn; tauto.
  - apply (hour_rows 6); cbn; tauto.
  - apply (hour_rows 12); cbn; tauto.
  - apply day1_row.
  - apply day2_row.
  - apply week_row.
  - apply month1_row.
  - apply month3_row.
  - apply (year_row 1). lia.
Qed.

Lemma window_from_enum (T : Z -> Prop) gmin gmax lo hi L :
  row_ok T gmin gmax -> enumerates T lo hi L -> lo < hi ->
  window_count (hi - lo - 1000) gmin gmax (Z.of_nat (length L)).
Proof.
  intros (P & _ & S & Dn) EN H. split.
  - pose proof (enum_count_upper T gmin gmax P S Dn lo hi L EN H). lia.
  - pose proof (enum_count_lower T gmin gmax S Dn lo hi L EN). lia.
Qed.

(* which row the table picks, on integers: M = 1000 m, X = the span in microseconds *)
Lemma method_table e0 e1 m X meth : 0 < m -> 0 <= X -> (e1 - e0 == X # 1000)%Q ->
  1000 * (1000 * m) <= X -> X < 31536000000 * (1000 * m) ->
  tick_method_of e0 e1 m = Ok meth ->
  exists i, (1 <= i <= 17)%nat /\
    nth (i - 1) scale_steps 0 * (1000 * m) <= X < nth i scale_steps 0 * (1000 * m) /\
    ((nth (i - 1) scale_steps 0 * nth i scale_steps 0 * (1000 * m) * (1000 * m) <= X * X /\
      meth = TUnit (fst (nth i scale_methods (UYear, 1))) (inject_Z (snd (nth i scale_methods (UYear, 1))))) \/
     (X * X < nth (i - 1) scale_steps 0 * nth i scale_steps 0 * (1000 * m) * (1000 * m) /\
      meth = TUnit (fst (nth (i - 1) scale_methods (UYear, 1)))
                   (inject_Z (snd (nth (i - 1) scale_methods (UYear, 1)))))).
Proof.
  intros Hm HX Ed Hlo Hhi EM.
  unfold tick_method_of in EM. destruct (m <=? 0) eqn:Cm; [lia|]. cbv zeta in EM.
  set (t := ((e1 - e0) / inject_Z m)%Q) in *.
  assert (Ht : (t == (X # 1000) / inject_Z m)%Q) by (unfold t; rewrite Ed; reflexivity).
  destruct (bisect_spec scale_steps t) as [B1 B2].
  set (i := bisect scale_steps t) in *. clearbody i. clearbody t.
  assert (Hi1 : (1 <= i)%nat).
  { destruct i as [|i]; [|lia]. exfalso. specialize (B2 ltac:(cbn; lia)). cbn [nth scale_steps] in B2.
    apply (target_lt X m t Hm Ht) in B2. lia. }
  assert (Hi2 : (i <= 17)%nat).
  { destruct (Nat.le_gt_cases i 17) as [Q|Q]; [assumption|exfalso].
    specialize (B1 17%nat ltac:(lia)). cbn [nth scale_steps] in B1.
    apply (target_ge X m t Hm Ht) in B1. lia. }
  assert (N18 : Nat.eqb i (length scale_steps) = false) by (apply Nat.eqb_neq; change (length scale_steps) with 18%nat; lia).
  assert (N0 : Nat.eqb i 0 = false) by (apply Nat.eqb_neq; lia).
  rewrite N18, N0 in EM.
  exists i. split; [lia|].
  pose proof (B1 (i - 1)%nat ltac:(lia)) as L1. apply (target_ge X m t Hm Ht) in L1.
  specialize (B2 ltac:(cbn; lia)). apply (target_lt X m t Hm Ht) in B2.
  split; [lia|].
  assert (Hlo' : 0 < nth (i - 1) scale_steps 0).
  { clear - Hi1 Hi2. destruct i as [|[|[|[|[|[|[|[|[|[|[|[|[|[|[|[|[|[|i]]]]]]]]]]]]]]]]]]; cbn; lia. }
  assert (Hhi' : 0 < nth i scale_steps 0).
  { clear - Hi1 Hi2. destruct i as [|[|[|[|[|[|[|[|[|[|[|[|[|[|[|[|[|[|i]]]]]]]]]]]]]]]]]]; cbn; lia. }
  assert (Htp : (0 < t)%Q).
  { assert (inject_Z 1000 <= t)%Q by (apply (target_ge X m t Hm Ht); lia).
    change (inject_Z 1000) with 1000%Q in H. lra. }
  replace (nth (i - 1) scale_steps 1) with (nth (i - 1) scale_steps 0) in EM
    by (apply nth_indep; cbn; lia).
  replace (nth i scale_steps 1) with (nth i scale_steps 0) in EM by (apply nth_indep; cbn; lia).
  destruct (Qle_bool (inject_Z (nth i scale_steps 0) / t) (t / inject_Z (nth (i - 1) scale_steps 0))) eqn:Q.
  - left. apply (ratio_test X m t Hm Ht _ _ Hlo' Hhi' Htp) in Q. split; [lia|].
    destruct (nth i scale_methods (UYear, 1)) as [u k]. injection EM as <-. reflexivity.
  - right. split.
    + destruct (Z_lt_le_dec (X * X) (nth (i - 1) scale_steps 0 * nth i scale_steps 0 * (1000 * m) * (1000 * m)))
        as [G|G]; [assumption|exfalso].
      apply (ratio_test X m t Hm Ht _ _ Hlo' Hhi' Htp) in G. congruence.
    + destruct (nth (i - 1) scale_methods (UYear, 1)) as [u k]. injection EM as <-. reflexivity.
Qed.

(* the window of a tick list produced by range() for row p of the table *)
Lemma row_window p t0 t1 l : (p < 18)%nat -> valid t0 -> valid t1 -> ms_resolution t0 ->
  to_us t0 < to_us t1 ->
  iv_range (interval_of (fst (nth p scale_methods (UYear, 1)))) t0 t1
           (skip_of (inject_Z (snd (nth p scale_methods (UYear, 1))))) = Ok l ->
  window_count (to_us t1 - to_us t0 - 1000)
               (fst (nth p row_bounds (0, 0))) (snd (nth p row_bounds (0, 0))) (Z.of_nat (length l)).
Proof.
  intros Hp V0 V1 M0 Hlt R.
  assert (Hk : 1 <= snd (nth p scale_methods (UYear, 1))).
  { clear - Hp. destruct p as [|[|[|[|[|[|[|[|[|[|[|[|[|[|[|[|[|[|p]]]]]]]]]]]]]]]]]]; cbn; lia. }
  rewrite (skip_of_inject _ Hk) in R.
  pose proof (range_enumerates _ _ _ _ _ V0 V1 M0 R) as EN.
  pose proof (window_from_enum _ _ _ _ _ _ (rows_table p Hp) EN Hlt) as W.
  rewrite map_length in W. exact W.
Qed.

(* tt_count for the 18 table rows, except the two-day row reached from above
   (target between 2 and sqrt 14 days), which needs the finer count of
   day2_count below *)
Lemma table_count m X i meth t0 t1 l : 0 < m -> 0 <= X -> (1 <= i <= 17)%nat ->
  nth (i - 1) scale_steps 0 * (1000 * m) <= X < nth i scale_steps 0 * (1000 * m) ->
  ((nth (i - 1) scale_steps 0 * nth i scale_steps 0 * (1000 * m) * (1000 * m) <= X * X /\
    meth = TUnit (fst (nth i scale_methods (UYear, 1))) (inject_Z (snd (nth i scale_methods (UYear, 1))))) \/
   (X * X < nth (i - 1) scale_steps 0 * nth i scale_steps 0 * (1000 * m) * (1000 * m) /\
    meth = TUnit (fst (nth (i - 1) scale_methods (UYear, 1)))
                 (inject_Z (snd (nth (i - 1) scale_methods (UYear, 1)))) /\ i <> 14%nat)) ->
  valid t0 -> valid t1 -> ms_resolution t0 -> to_us t1 = to_us t0 + X + 1000 ->
  match meth with
  | TMillis _ => True
  | TUnit u sk => iv_range (interval_of u) t0 t1 (skip_of sk) = Ok l
  end ->
  count_ok m (Z.of_nat (length l)).
Proof.
  intros Hm HX Hi B C V0 V1 M0 Et1 R.
  assert (Hlt : to_us t0 < to_us t1) by lia.
  assert (EX : to_us t1 - to_us t0 - 1000 = X) by lia.
  destruct C as [[Sq ->]|(Sq & -> & Ni)].
  - pose proof (row_window i t0 t1 l ltac:(lia) V0 V1 M0 Hlt R) as W. rewrite EX in W.
    clear R Et1 EX Hlt V0 V1 M0.
    destruct i as [|[|[|[|[|[|[|[|[|[|[|[|[|[|[|[|[|[|i]]]]]]]]]]]]]]]]]]; try lia;
      cbn [nth scale_steps row_bounds fst snd Nat.sub] in *;
      (eapply count_caseA; [exact Hm|exact HX| | | | |exact Sq| |exact W| |]; lia).
  - pose proof (row_window (i - 1) t0 t1 l ltac:(lia) V0 V1 M0 Hlt R) as W. rewrite EX in W.
    clear R Et1 EX Hlt V0 V1 M0.
    destruct i as [|[|[|[|[|[|[|[|[|[|[|[|[|[|[|[|[|[|i]]]]]]]]]]]]]]]]]]; try lia;
      cbn [nth scale_steps row_bounds fst snd Nat.sub] in *;
      (eapply count_caseB; [exact Hm|exact HX| | | | |exact Sq| |exact W| | |]; lia).
Qed.

(* ---------- tt_count: the two fall-backs ----------------------------------- *)
Lemma method_ms e0 e1 m X meth : 0 < m -> 0 <= X -> (e1 - e0 == X # 1000)%Q ->
  X < 1000 * (1000 * m) -> tick_method_of e0 e1 m = Ok meth ->
  exists st, meth = TMillis st /\ lin_tick_step e0 e1 m = Ok st.
Proof.
  intros Hm HX Ed Hlt EM.
  unfold tick_method_of in EM. destruct (m <=? 0) eqn:Cm; [lia|]. cbv zeta in EM.
  set (t := ((e1 - e0) / inject_Z m)%Q) in *.
  assert (Ht : (t == (X # 1000) / inject_Z m)%Q) by (unfold t; rewrite Ed; reflexivity).
  destruct (bisect_spec scale_steps t) as [B1 _].
  set (i := bisect scale_steps t) in *. clearbody i. clearbody t.
  assert (i = 0%nat) as ->.
  { destruct i as [|i]; [reflexivity|exfalso]. specialize (B1 0%nat ltac:(lia)).
    cbn [nth scale_steps] in B1. apply (target_ge X m t Hm Ht) in B1. lia. }
  change (Nat.eqb 0 (length scale_steps)) with false in EM. change (Nat.eqb 0 0) with true in EM.
  cbv iota in EM. destruct (lin_tick_step e0 e1 m) as [st| |]; try discriminate.
  injection EM as <-. exists st. auto.
Qed.

Lemma bisect_le_length : forall l x, (bisect l x <= length l)%nat.
Proof.
  induction l as [|a l IH]; intro x; cbn [bisect length]; [lia|].
  destruct (Qle_bool (inject_Z a) x); [specialize (IH x)|]; lia.
Qed.

Lemma method_year e0 e1 m X meth : 0 < m -> 0 <= X -> (e1 - e0 == X # 1000)%Q ->
  31536000000 * (1000 * m) <= X -> tick_method_of e0 e1 m = Ok meth ->
  exists st, meth = TUnit UYear st /\
             lin_tick_step (e0 / 31536000000) (e1 / 31536000000) m = Ok st.
Proof.
  intros Hm HX Ed Hge EM.
  unfold tick_method_of in EM. destruct (m <=? 0) eqn:Cm; [lia|]. cbv zeta in EM.
  set (t := ((e1 - e0) / inject_Z m)%Q) in *.
  assert (Ht : (t == (X # 1000) / inject_Z m)%Q) by (unfold t; rewrite Ed; reflexivity).
  destruct (bisect_spec scale_steps t) as [_ B2].
  pose proof (bisect_le_length scale_steps t) as BL. change (length scale_steps) with 18%nat in BL.
  set (i := bisect scale_steps t) in *. clearbody i. clearbody t.
  assert (i = 18%nat) as ->.
  { destruct (Nat.lt_ge_cases i 18) as [Q|Q]; [exfalso|lia].
    specialize (B2 ltac:(cbn; lia)). apply (target_lt X m t Hm Ht) in B2.
    clear - B2 Hge Hm Q. destruct i as [|[|[|[|[|[|[|[|[|[|[|[|[|[|[|[|[|[|i]]]]]]]]]]]]]]]]]]; cbn [nth scale_steps] in B2; lia. }
  change (Nat.eqb 18 (length scale_steps)) with true in EM. cbv iota in EM.
  destruct (lin_tick_step (e0 / 31536000000) (e1 / 31536000000) m) as [st| |]; try discriminate.
  injection EM as <-. exists st. auto.
Qed.

Lemma span_as_Q (X : Z) : (X # 1000 == inject_Z X / 1000)%Q.
Proof. unfold Qeq, Qdiv, Qmult, Qinv, inject_Z. cbn. lia. Qed.

(* the year fall-back: target >= 365 days *)
Lemma year_count e0 e1 m X st t0 t1 l : 0 < m -> 0 <= X -> (e1 - e0 == X # 1000)%Q ->
  31536000000 * (1000 * m) <= X ->
  lin_tick_step (e0 / 31536000000) (e1 / 31536000000) m = Ok st ->
  valid t0 -> valid t1 -> ms_resolution t0 -> to_us t1 = to_us t0 + X + 1000 ->
  iv_range (interval_of UYear) t0 t1 (skip_of st) = Ok l ->
  count_ok m (Z.of_nat (length l)).
Proof.
  intros Hm HX Ed Hge Es V0 V1 M0 Et1 R.
  assert (ES : (e1 / 31536000000 - e0 / 31536000000 == inject_Z X / 31536000000000)%Q).
  { assert (E : (e1 / 31536000000 - e0 / 31536000000 == (e1 - e0) / 31536000000)%Q) by field.
    rewrite E, Ed, span_as_Q. field. }
  pose proof (inject_Z_pos m Hm) as Pm.
  assert (HS : (inject_Z m <= e1 / 31536000000 - e0 / 31536000000)%Q).
  { rewrite ES. apply Qle_shift_div_l; [reflexivity|].
    change 31536000000000%Q with (inject_Z 31536000000000). rewrite <- inject_Z_mult, <- Zle_Qle. lia. }
  destruct (lin_tick_step_integer _ _ _ _ Hm HS Es) as (k & Hk & Ek & B1 & B2).
  rewrite ES in B1, B2.
  (* the bounds on integers *)
  assert (Z1 : 4 * (m * k) * 31536000000000 <= 7 * X).
  { rewrite Zle_Qle. rewrite !inject_Z_mult.
    assert (E : (inject_Z X / 31536000000000 * 31536000000000 == inject_Z X)%Q) by field.
    change (inject_Z 4) with 4%Q. change (inject_Z 7) with 7%Q.
    change (inject_Z 31536000000000) with 31536000000000%Q. nra. }
  assert (Z2 : 7 * X < 10 * (m * k) * 31536000000000).
  { rewrite Zlt_Qlt. rewrite !inject_Z_mult.
    assert (E : (inject_Z X / 31536000000000 * 31536000000000 == inject_Z X)%Q) by field.
    change (inject_Z 10) with 10%Q. change (inject_Z 7) with 7%Q.
    change (inject_Z 31536000000000) with 31536000000000%Q. nra. }
  rewrite (skip_of_int st k Hk Ek) in R.
  assert (Hlt : to_us t0 < to_us t1) by lia.
  pose proof (range_enumerates _ _ _ _ _ V0 V1 M0 R) as EN.
  pose proof (window_from_enum _ _ _ _ _ _ (year_row k Hk) EN Hlt) as W.
  rewrite map_length in W. replace (to_us t1 - to_us t0 - 1000) with X in W by lia.
  assert (P : 1 <= m * k) by nia. set (mk := m * k) in *.
  apply (count_from_window m X (365 * k * D) (366 * k * D)); try assumption; lia.
Qed.

(* the millisecond fall-back: target < 1 s, at least m milliseconds of span *)
Lemma ms_count e0 e1 m X st t0 t1 l : 0 < m -> 0 <= X -> (e1 - e0 == X # 1000)%Q ->
  1000 * m <= X ->
  lin_tick_step e0 e1 m = Ok st ->
  ms_resolution t0 -> ms_resolution t1 -> to_us t1 = to_us t0 + X + 1000 ->
  ms_range t0 t1 st = Ok l ->
  count_ok m (Z.of_nat (length l)).
Proof.
  intros Hm HX Ed Hge Es M0 M1 Et1 R.
  pose proof (inject_Z_pos m Hm) as Pm.
  assert (HS : (inject_Z m <= e1 - e0)%Q).
  { rewrite Ed, span_as_Q. apply Qle_shift_div_l; [reflexivity|].
    change 1000%Q with (inject_Z 1000). rewrite <- inject_Z_mult, <- Zle_Qle. lia. }
  destruct (lin_tick_step_integer _ _ _ _ Hm HS Es) as (k & Hk & Ek & B1 & B2).
  rewrite Ed, span_as_Q in B1, B2.
  assert (Z1 : 4 * (m * k) * 1000 <= 7 * X).
  { rewrite Zle_Qle. rewrite !inject_Z_mult.
    assert (E : (inject_Z X / 1000 * 1000 == inject_Z X)%Q) by field.
    change (inject_Z 4) with 4%Q. change (inject_Z 7) with 7%Q. change (inject_Z 1000) with 1000%Q. nra. }
  assert (Z2 : 7 * X < 10 * (m * k) * 1000).
  { rewrite Zlt_Qlt. rewrite !inject_Z_mult.
    assert (E : (inject_Z X / 1000 * 1000 == inject_Z X)%Q) by field.
    change (inject_Z 10) with 10%Q. change (inject_Z 7) with 7%Q. change (inject_Z 1000) with 1000%Q. nra. }
  pose proof (ms_range_enumerates _ _ _ _ M0 M1 R) as EN.
  rewrite (qtrunc_int st k Ek) in EN. replace (Z.max 1 k) with k in EN by lia.
  assert (Hlt : to_us t0 < to_us t1) by lia.
  pose proof (window_from_enum _ _ _ _ _ _ (multiples_row (1000 * k) ltac:(lia)) EN Hlt) as W.
  rewrite map_length in W. replace (to_us t1 - to_us t0 - 1000) with X in W by lia.
  (* X is a whole number of milliseconds, so the 999 microseconds of slack vanish *)
  assert (Xm : X mod 1000 = 0) by (unfold ms_resolution in M0, M1; lia).
  destruct W as [W1 W2]. set (n := Z.of_nat (length l)) in *. clearbody n.
  apply Z.mod_divide in Xm; [|lia]. destruct Xm as [x ->].
  assert (W1' : (n - 1) * k <= x) by nia.
  unfold count_ok. split.
  - assert (10 * m * k < 24 * (n + 1) * k) by nia.
    destruct (Z_le_gt_dec (10 * m) (24 * (n + 1))) as [Q|Q]; [assumption|exfalso]. nia.
  - destruct (Z_le_gt_dec (10 * (n - 1)) (24 * m)) as [Q|Q]; [assumption|exfalso].
    assert (24 * m * k < 10 * (n - 1) * k) by nia. nia.
Qed.

(* the two-day row reached from above: target between 2 and sqrt 14 days *)
Lemma day2B_count m X t0 t1 l : 0 < m -> 0 <= X ->
  X * X < 172800000 * 604800000 * (1000 * m) * (1000 * m) -> 172800000 * (1000 * m) <= X ->
  valid t0 -> valid t1 -> ms_resolution t0 -> to_us t1 = to_us t0 + X + 1000 ->
  iv_range (interval_of UDay) t0 t1 (skip_of (inject_Z 2)) = Ok l ->
  count_ok m (Z.of_nat (length l)).
Proof.
  intros Hm HX Sq Le V0 V1 M0 Et1 R.
  rewrite (skip_of_inject 2 ltac:(lia)) in R.
  assert (Hlt : to_us t0 < to_us t1) by lia.
  pose proof (range_enumerates _ _ _ _ _ V0 V1 M0 R) as EN.
  pose proof (window_from_enum _ _ _ _ _ _ day2_row EN Hlt) as [_ W2].
  destruct (day2_span _ _ _ EN Hlt) as (g & Hg & S1 & S2).
  rewrite map_length in *. set (n := Z.of_nat (length l)) in *. clearbody n.
  replace (to_us t1 - to_us t0 - 1000) with X in W2 by lia.
  replace (to_us t1 - 1 - to_us t0) with (X + 999) in S1 by lia.
  replace (to_us t1 - to_us t0) with (X + 1000) in S2 by lia.
  assert (XC : X < 323280000000 * m).
  { destruct (Z_lt_le_dec X (323280000000 * m)) as [Q|Q]; [assumption|exfalso].
    assert (323280000000 * m * (323280000000 * m) <= X * X) by nia. nia. }
  unfold count_ok. split; lia.
Qed.

(* ---------- tt_count -------------------------------------------------------- *)
(* For every count m >= 1 and every domain of at least m milliseconds: the
   number n of ticks satisfies m / 2.4 - 1 <= n <= 2.4 m + 1
   (count_ok m n: 10 m <= 24 (n + 1) and 10 (n - 1) <= 24 m). *)
Theorem tt_count d0 d1 m l :
  valid d0 -> valid d1 -> ms_resolution d0 -> ms_resolution d1 -> 0 < m ->
  m <= (to_us (dom_hi d0 d1) - to_us (dom_lo d0 d1)) / 1000 ->
  ts_ticks d0 d1 m = Ok l ->
  count_ok m (Z.of_nat (length l)).
Proof.
  intros V0 V1 M0 M1 Hm Hspan H.
  destruct (ts_ticks_run d0 d1 m l V0 V1 H) as (meth & t1 & EM & Vt1 & Et1 & R).
  destruct (dom_lo_hi d0 d1) as [Hle Hc].
  assert (Vlo : valid (dom_lo d0 d1)) by (destruct Hc as [[-> _]|[-> _]]; assumption).
  assert (Mlo : ms_resolution (dom_lo d0 d1)) by (destruct Hc as [[-> _]|[-> _]]; assumption).
  assert (Mhi : ms_resolution (dom_hi d0 d1)) by (destruct Hc as [[_ ->]|[_ ->]]; assumption).
  assert (Mt1 : ms_resolution t1) by (unfold ms_resolution in *; rewrite Et1; lia).
  set (X := to_us (dom_hi d0 d1) - to_us (dom_lo d0 d1)) in *.
  assert (HX : 0 <= X) by (subst X; lia).
  assert (Ed : (to_ms (dom_hi d0 d1) - to_ms (dom_lo d0 d1) == X # 1000)%Q) by apply to_ms_diff.
  assert (Et1' : to_us t1 = to_us (dom_lo d0 d1) + X + 1000) by (subst X; lia).
  assert (HXm : 1000 * m <= X) by (unfold ms_resolution in Mlo, Mhi; subst X; lia).
  clearbody X.
  destruct (Z_lt_le_dec X (1000 * (1000 * m))) as [C1|C1].
  - (* millisecond fall-back *)
    destruct (method_ms _ _ _ _ _ Hm HX Ed C1 EM) as (st & -> & Es).
    exact (ms_count _ _ _ _ _ _ _ _ Hm HX Ed HXm Es Mlo Mt1 Et1' R).
  - destruct (Z_lt_le_dec X (31536000000 * (1000 * m))) as [C2|C2].
    + (* one of the 18 rows *)
      destruct (method_table _ _ _ _ _ Hm HX Ed C1 C2 EM) as (i & Hi & B & C).
      destruct C as [[Sq ->]|[Sq ->]].
      * exact (table_count m X i _ (dom_lo d0 d1) t1 l Hm HX Hi B (or_introl (conj Sq eq_refl))
                 Vlo Vt1 Mlo Et1' R).
      * destruct (Nat.eq_dec i 14) as [->|N14].
        -- cbn [nth scale_steps scale_methods fst snd Nat.sub] in Sq, B, R.
           exact (day2B_count m X _ _ l Hm HX Sq ltac:(lia) Vlo Vt1 Mlo Et1' R).
        -- exact (table_count m X i _ (dom_lo d0 d1) t1 l Hm HX Hi B
                    (or_intror (conj Sq (conj eq_refl N14))) Vlo Vt1 Mlo Et1' R).
    + (* year fall-back *)
      destruct (method_year _ _ _ _ _ Hm HX Ed C2 EM) as (st & -> & Es).
      exact (year_count _ _ _ _ _ _ _ _ Hm HX Ed C2 Es Vlo Vt1 Mlo Et1' R).
Qed.

(* ======================================================================== *)
(* The row of a method: its tick set and its bounds, as FUNCTIONS of the
   method (no existential), used by C16_gap_implies_alignment and by the
   time part of C14 (Time/NiceBoundProofs.v).                               *)
From Labella Require Scale.Ticks Scale.IlogProofs Scale.TickStepProofs.

Definition meth_ticks (meth : tick_method) : Z -> Prop :=
  match meth with
  | TMillis stq => fun z => z mod (1000 * Z.max 1 (qtrunc stq)) = 0
  | TUnit u sk => tickset u (skip_of sk)
  end.

(* (separation, density) in microseconds; k = the integer skip *)
Definition meth_bounds (meth : tick_method) : Z * Z :=
  match meth with
  | TMillis stq => (1000 * Z.max 1 (qtrunc stq), 1000 * Z.max 1 (qtrunc stq))
  | TUnit u sk =>
      let k := skip_of sk in
      match u with
      | USecond => (k * 1000000, k * 1000000)
      | UMinute => (k * 60000000, k * 60000000)
      | UHour => (k * 3600000000, k * 3600000000)
      | UDay => (D, k * D)
      | UWeek => (7 * D, 7 * D)
      | UMonth => (28 * k * D, 31 * k * D)
      | UYear => (365 * k * D, 366 * k * D)
      end
  end.

Lemma row_ok_eq (T : Z -> Prop) a b a' b' : a = a' -> b = b' -> row_ok T a b -> row_ok T a' b'.
Proof. intros -> ->. auto. Qed.

(* the row of every method tickMethod can produce *)
Theorem meth_row_bounds e0 e1 m meth : tick_method_of e0 e1 m = Ok meth ->
  row_ok (meth_ticks meth) (fst (meth_bounds meth)) (snd (meth_bounds meth)) /\
  snd (meth_bounds meth) <= 2 * fst (meth_bounds meth).
Proof.
  intros EM. destruct (method_cases _ _ _ _ EM) as [[st ->]|[[sk ->]|(u & k & -> & I)]];
    cbn [meth_ticks meth_bounds fst snd].
  - split; [apply multiples_row|]; lia.
  - pose proof (skip_of_pos sk) as Hsk. split; [apply (year_row _ Hsk)|lia].
  - assert (Hk : 1 <= k).
    { unfold scale_methods in I. cbn [In] in I. repeat (destruct I as [[= <- <-]|I]); try lia; try contradiction. }
    rewrite (skip_of_inject k Hk).
    unfold scale_methods in I. cbn [In] in I.
    repeat (destruct I as [[= <- <-]|I]); try contradiction; cbn [fst snd]; (split; [|lia]).
    + apply (second_rows 1); cbn; tauto.
    + apply (second_rows 5); cbn; tauto.
    + apply (second_rows 15); cbn; tauto.
    + apply (second_rows 30); cbn; tauto.
    + apply (minute_rows 1); cbn; tauto.
    + apply (minute_rows 5); cbn; tauto.
    + apply (minute_rows 15); cbn; tauto.
    + apply (minute_rows 30); cbn; tauto.
    + apply (hour_rows 1); cbn; tauto.
    + apply (hour_rows 3); cbn; tauto.
    + apply (hour_rows 6); cbn; tauto.
    + apply (hour_rows 12); cbn; tauto.
    + eapply row_ok_eq; [| |apply day1_row]; lia.
    + apply day2_row.
    + apply week_row.
    + eapply row_ok_eq; [| |apply month1_row]; lia.
    + eapply row_ok_eq; [| |apply month3_row]; lia.
    + eapply row_ok_eq; [| |apply (year_row 1); lia]; lia.
Qed.

(* the ticks of a domain: all in the method's tick set, gaps within the row's bounds *)
Theorem ticks_row d0 d1 m l meth :
  valid d0 -> valid d1 -> ms_resolution d0 -> ms_resolution d1 ->
  ts_ticks d0 d1 m = Ok l ->
  tick_method_of (to_ms (dom_lo d0 d1)) (to_ms (dom_hi d0 d1)) m = Ok meth ->
  Forall (fun t => meth_ticks meth (to_us t)) l /\
  Sorted (fun x y => fst (meth_bounds meth) <= to_us y - to_us x <= snd (meth_bounds meth)) l.
Proof.
  intros V0 V1 M0 M1 H EM.
  destruct (ts_ticks_run d0 d1 m l V0 V1 H) as (meth' & t1 & EM' & Vt1 & Et1 & R).
  rewrite EM in EM'. injection EM' as <-.
  destruct (dom_lo_hi d0 d1) as [Hle Hc].
  assert (Vlo : valid (dom_lo d0 d1)) by (destruct Hc as [[-> _]|[-> _]]; assumption).
  assert (Mlo : ms_resolution (dom_lo d0 d1)) by (destruct Hc as [[-> _]|[-> _]]; assumption).
  assert (Mhi : ms_resolution (dom_hi d0 d1)) by (destruct Hc as [[_ ->]|[_ ->]]; assumption).
  assert (Mt1 : ms_resolution t1) by (unfold ms_resolution in *; rewrite Et1; lia).
  assert (EN : enumerates (meth_ticks meth) (to_us (dom_lo d0 d1)) (to_us t1) (map to_us l)).
  { destruct meth as [stq|u sk]; cbn [meth_ticks].
    - exact (ms_range_enumerates _ _ _ _ Mlo Mt1 R).
    - exact (range_enumerates _ _ _ _ _ Vlo Vt1 Mlo R). }
  destruct (meth_row_bounds _ _ _ _ EM) as [(Pg & _ & Sp & Dn) _].
  split.
  - apply Forall_forall. intros t Ht. apply (proj2 EN). apply in_map. assumption.
  - apply (Sorted_map_to_us (fun a b => fst (meth_bounds meth) <= b - a <= snd (meth_bounds meth))).
    exact (enum_gaps _ _ _ Sp Dn _ _ _ EN).
Qed.

Lemma Sorted_nth {A} (R : A -> A -> Prop) : forall l i x y, Sorted R l ->
  nth_error l i = Some x -> nth_error l (S i) = Some y -> R x y.
Proof.
  induction l as [|a l IH]; intros i x y S Hx Hy; [destruct i; discriminate|].
  apply Sorted_inv in S. destruct S as [S1 S2]. destruct i as [|i].
  - cbn in Hx, Hy. injection Hx as <-. destruct l as [|b l]; [discriminate|].
    cbn in Hy. injection Hy as <-. apply HdRel_inv in S2. assumption.
  - cbn in Hx. change (nth_error (a :: l) (S (S i))) with (nth_error l (S i)) in Hy.
    eapply IH; eassumption.
Qed.

(* ---------- the millisecond method never steps by more than a second ------- *)
Lemma qtrunc_le_int q k : 0 <= k -> (q <= inject_Z k)%Q -> qtrunc q <= k.
Proof.
  destruct q as [n d]. unfold Qle, qtrunc, inject_Z. cbn [Qnum Qden]. intros Hk H.
  destruct (Z_lt_le_dec n 0) as [N|N].
  - pose proof (Z.quot_opp_l (- n) (Zpos d) ltac:(lia)) as E. rewrite Z.opp_involutive in E.
    pose proof (Z.quot_pos (- n) (Zpos d) ltac:(lia) ltac:(lia)). lia.
  - rewrite Z.quot_div_nonneg by lia. apply Z.div_le_upper_bound; lia.
Qed.

Lemma lin_step_le_1000 lo hi m st : (lo <= hi)%Q -> 0 < m ->
  ((hi - lo) / inject_Z m < 1000)%Q -> lin_tick_step lo hi m = Ok st -> (st <= 1000)%Q.
Proof.
  intros Hle Hm Ht H. destruct (Qlt_le_dec lo hi) as [Hlt|Hge].
  - pose proof (lin_tick_step_eq lo hi m st Hlt Hm H) as E.
    assert (HS : (0 < hi - lo)%Q) by lra.
    destruct (Scale.TickStepProofs.tick_step_spec (hi - lo) m HS Hm) as [[A _] (c & Ec & C)].
    set (e := Scale.Ticks.ilog10 ((hi - lo) / inject_Z m)) in *.
    pose proof (inject_Z_pos m Hm) as Pm.
    assert (X : ((hi - lo) / inject_Z m * inject_Z m == hi - lo)%Q) by (field; lra).
    assert (P : (Scale.Ticks.pow10 e < Scale.Ticks.pow10 3)%Q).
    { change (Scale.Ticks.pow10 3) with 1000%Q. nra. }
    apply Scale.IlogProofs.pow10_lt_inv in P.
    pose proof (Scale.IlogProofs.pow10_le_mono e 2 ltac:(lia)) as P2.
    change (Scale.Ticks.pow10 2) with 100%Q in P2.
    pose proof (Scale.IlogProofs.pow10_pos e) as P0.
    rewrite E, Ec. unfold Scale.TickStepProofs.step_case in C.
    destruct C as [[Q _]|[[Q _]|[[Q _]|[Q _]]]]; rewrite Q; lra.
  - unfold lin_tick_step in H. cbv zeta in H.
    assert (E0 : Qeq_bool (hi - lo) 0 = true) by (apply Qeq_bool_iff; lra).
    rewrite E0 in H. injection H as <-. lra.
Qed.

Lemma ms_method_step e0 e1 m st : (e0 <= e1)%Q -> tick_method_of e0 e1 m = Ok (TMillis st) ->
  Z.max 1 (qtrunc st) <= 1000.
Proof.
  intros Hle EM. unfold tick_method_of in EM. destruct (m <=? 0) eqn:Cm; [discriminate|]. cbv zeta in EM.
  assert (Hm : 0 < m) by lia.
  set (t := ((e1 - e0) / inject_Z m)%Q) in *.
  destruct (bisect_spec scale_steps t) as [_ B2].
  set (i := bisect scale_steps t) in *. clearbody i.
  assert (Et : t = ((e1 - e0) / inject_Z m)%Q) by reflexivity. clearbody t.
  destruct (Nat.eqb i (length scale_steps)).
  - destruct (lin_tick_step _ _ m); discriminate.
  - destruct (Nat.eqb i 0) eqn:I0.
    + apply Nat.eqb_eq in I0. subst i. specialize (B2 ltac:(cbn; lia)). cbn [nth scale_steps] in B2.
      change (inject_Z 1000) with 1000%Q in B2. rewrite Et in B2.
      destruct (lin_tick_step e0 e1 m) as [s| |] eqn:Es; try discriminate. injection EM as <-.
      pose proof (lin_step_le_1000 _ _ _ _ Hle Hm B2 Es) as L.
      pose proof (qtrunc_le_int _ 1000 ltac:(lia) L). lia.
    + destruct (nth _ scale_methods _) as [u k]. discriminate.
Qed.

(* ---------- an observed gap fixes the alignment of all ticks ---------------- *)
(* a boundary of u is a boundary of v *)
Definition implies_unit (u v : unit_id) : bool :=
  match u, v with
  | UYear, (UYear | UMonth | UDay | UHour | UMinute | USecond) => true
  | UMonth, (UMonth | UDay | UHour | UMinute | USecond) => true
  | UWeek, (UWeek | UDay | UHour | UMinute | USecond) => true
  | UDay, (UDay | UHour | UMinute | USecond) => true
  | UHour, (UHour | UMinute | USecond) => true
  | UMinute, (UMinute | USecond) => true
  | USecond, USecond => true
  | _, _ => false
  end.

Lemma boundary_implied u v x : implies_unit u v = true -> is_boundary u x -> is_boundary v x.
Proof.
  destruct (boundary_coarser x) as (YM & MD & WD & DH & HMi & MiS).
  destruct u, v; cbn [implies_unit]; intros E B; try discriminate; auto 10.
Qed.

Theorem gap_implies_alignment d0 d1 m l i x y :
  valid d0 -> valid d1 -> ms_resolution d0 -> ms_resolution d1 ->
  ts_ticks d0 d1 m = Ok l ->
  nth_error l i = Some x -> nth_error l (S i) = Some y ->
  let G := to_us y - to_us x in
  (1000000 <= G -> Forall (fun t => is_boundary USecond (to_us t)) l) /\
  (60000000 <= G -> Forall (fun t => is_boundary UMinute (to_us t)) l) /\
  (3600000000 <= G -> Forall (fun t => is_boundary UHour (to_us t)) l) /\
  (D <= G -> Forall (fun t => is_boundary UDay (to_us t)) l) /\
  (28 * D <= G -> Forall (fun t => is_boundary UMonth (to_us t)) l) /\
  (365 * D <= G -> Forall (fun t => is_boundary UYear (to_us t)) l).
Proof.
  intros V0 V1 M0 M1 H Hx Hy G.
  destruct (ts_ticks_run d0 d1 m l V0 V1 H) as (meth & t1 & EM & _).
  destruct (ticks_row d0 d1 m l meth V0 V1 M0 M1 H EM) as [F S].
  pose proof (Sorted_nth _ l i x y S Hx Hy) as [_ Gmax]. fold G in Gmax. clearbody G.
  assert (Hle : (to_ms (dom_lo d0 d1) <= to_ms (dom_hi d0 d1))%Q).
  { destruct (dom_lo_hi d0 d1) as [L _].
    assert (0 <= to_ms (dom_hi d0 d1) - to_ms (dom_lo d0 d1))%Q; [|lra].
    rewrite to_ms_diff. unfold Qle. cbn [Qnum Qden]. lia. }
  destruct (method_cases _ _ _ _ EM) as [[st ->]|[[sk ->]|(u & k & -> & I)]].
  - (* milliseconds: the step is at most one second *)
    pose proof (ms_method_step _ _ _ _ Hle EM) as Hs. cbn [meth_bounds snd meth_ticks] in Gmax, F.
    set (s := Z.max 1 (qtrunc st)) in *. assert (1 <= s) by (subst s; lia). clearbody s.
    repeat split; intro HG; try (exfalso; lia).
    assert (s = 1000) by lia. subst s.
    eapply Forall_impl; [|exact F]. cbn. intros t Ht. unfold is_boundary. lia.
  - (* years *)
    cbn [meth_ticks] in F.
    repeat split; intros _; (eapply Forall_impl; [|exact F]); cbn beta; intros t [B _];
      (eapply boundary_implied; [|exact B]; reflexivity).
  - assert (Hk : 1 <= k).
    { unfold scale_methods in I. cbn [In] in I. repeat (destruct I as [[= <- <-]|I]); try lia; try contradiction. }
    cbn [meth_bounds snd meth_ticks] in Gmax, F. rewrite (skip_of_inject k Hk) in Gmax, F.
    unfold scale_methods in I. cbn [In] in I.
    repeat (destruct I as [[= <- <-]|I]); try contradiction; cbn [snd] in Gmax;
      (repeat split;
       first [ intro HG; exfalso; lia
             | intros _; (eapply Forall_impl; [|exact F]); cbn beta; intros t [B _];
               (eapply boundary_implied; [|exact B]; reflexivity) ]).
Qed.
