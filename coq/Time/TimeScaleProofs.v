(* Proofs about Time/TimeScale.v (property C15). *)
From Coq Require Import ZArith QArith Qround Lia Lqa List Bool.
From Labella Require Import Time.Calendar Time.CalendarProofs Time.TimeScale.
Import ListNotations.
Open Scope Q_scope.

(* ---------- epoch milliseconds ---------------------------------------------- *)
Lemma to_ms_lt a b : (to_us a < to_us b)%Z <-> to_ms a < to_ms b.
Proof. unfold to_ms, Qlt. cbn [Qnum Qden]. lia. Qed.

Lemma to_ms_eq a b : to_us a = to_us b <-> to_ms a == to_ms b.
Proof. unfold to_ms, Qeq. cbn [Qnum Qden]. lia. Qed.

Lemma to_ms_diff a b : to_ms b - to_ms a == (to_us b - to_us a) # 1000.
Proof. unfold to_ms, Qeq, Qminus, Qplus, Qopp. cbn [Qnum Qden]. lia. Qed.

Lemma to_ms_additive t delta t' :
  add_us t delta = Ok t' -> to_ms t' == to_ms t + (delta # 1000).
Proof.
  intros H. unfold add_us in H. apply of_us_chk_ok in H. destruct H as [_ E].
  unfold to_ms. rewrite E. unfold Qeq, Qplus. cbn [Qnum Qden]. lia.
Qed.

Lemma to_ms_times_1000 t : to_ms t * 1000 == inject_Z (to_us t).
Proof. unfold to_ms, Qeq, Qmult, inject_Z. cbn [Qnum Qden]. lia. Qed.

(* Python's field-wise order on datetimes is the order of epoch milliseconds *)
Lemma to_ms_lex a b : wf a -> wf b -> lex_lt a b -> to_ms a < to_ms b.
Proof. intros Ha Hb H. apply to_ms_lt. apply to_us_lt_lex; assumption. Qed.

(* ---------- the affine map --------------------------------------------------- *)
Lemma lin_nondeg a b r0 r1 x : ~ b == a ->
  lin a b r0 r1 x == r0 + (r1 - r0) * ((x - a) / (b - a)).
Proof.
  intros H. unfold lin. destruct (Qeq_bool b a) eqn:E.
  - apply Qeq_bool_iff in E. contradiction.
  - cbv zeta. ring.
Qed.

Lemma lin_deg a b r0 r1 x : b == a -> lin a b r0 r1 x == r0.
Proof.
  intros H. unfold lin. destruct (Qeq_bool b a) eqn:E.
  - cbv zeta. ring.
  - apply Qeq_bool_neq in E. contradiction.
Qed.

Lemma lin_first a b r0 r1 : ~ b == a -> lin a b r0 r1 a == r0.
Proof. intros H. rewrite lin_nondeg by exact H. field. intros C. apply H. lra. Qed.

Lemma lin_second a b r0 r1 : ~ b == a -> lin a b r0 r1 b == r1.
Proof. intros H. rewrite lin_nondeg by exact H. field. intros C. apply H. lra. Qed.

Lemma lin_inverse a b r0 r1 x : ~ b == a -> ~ r1 == r0 ->
  lin r0 r1 a b (r0 + (r1 - r0) * ((x - a) / (b - a))) == x.
Proof.
  intros Hd Hr. rewrite lin_nondeg by exact Hr. field.
  split; intros C; [apply Hr|apply Hd]; lra.
Qed.

(* lin respects == in its last argument when written through lin_nondeg *)
Lemma lin_last_comp a b r0 r1 x y : x == y -> lin a b r0 r1 x == lin a b r0 r1 y.
Proof.
  intros E. unfold lin. destruct (Qeq_bool b a); cbv zeta; [reflexivity|].
  rewrite E. reflexivity.
Qed.

(* ---------- the time scale ----------------------------------------------------- *)
Definition nondegenerate (s : tscale) : Prop := to_us (ts_d0 s) <> to_us (ts_d1 s).

Lemma nondeg_ms s : nondegenerate s -> ~ to_ms (ts_d1 s) == to_ms (ts_d0 s).
Proof. unfold nondegenerate. intros H C. apply to_ms_eq in C. lia. Qed.

Theorem ts_is_linear_of_ms s t :
  ts_apply s t = lin (to_ms (ts_d0 s)) (to_ms (ts_d1 s)) (ts_r0 s) (ts_r1 s) (to_ms t).
Proof. reflexivity. Qed.

Theorem ts_affine s t : nondegenerate s ->
  ts_apply s t == ts_r0 s + (ts_r1 s - ts_r0 s) * ts_progress s t.
Proof. intros H. unfold ts_apply, ts_progress. apply lin_nondeg, nondeg_ms, H. Qed.

Theorem ts_endpoints s : nondegenerate s ->
  ts_apply s (ts_d0 s) == ts_r0 s /\ ts_apply s (ts_d1 s) == ts_r1 s.
Proof.
  intros H. pose proof (nondeg_ms s H). unfold ts_apply.
  split; [apply lin_first|apply lin_second]; assumption.
Qed.

(* elapsed time -> length: the image of [a, b] has length
   (r1 - r0) * (b - a) / (d1 - d0), whatever a *)
Theorem ts_length s a b : nondegenerate s ->
  ts_apply s b - ts_apply s a ==
  (ts_r1 s - ts_r0 s) * (((to_us b - to_us a) # 1000) / (to_ms (ts_d1 s) - to_ms (ts_d0 s))).
Proof.
  intros H. pose proof (nondeg_ms s H) as Hm.
  rewrite !(ts_affine s _ H). unfold ts_progress. rewrite <- (to_ms_diff a b).
  field. intros C. apply Hm. lra.
Qed.

Theorem ts_equal_durations s a b c d : nondegenerate s ->
  (to_us b - to_us a = to_us d - to_us c)%Z ->
  ts_apply s b - ts_apply s a == ts_apply s d - ts_apply s c.
Proof.
  intros H E. rewrite (ts_length s a b H), (ts_length s c d H), E. reflexivity.
Qed.

Lemma progress_diff s a b : nondegenerate s ->
  ts_progress s b - ts_progress s a ==
  (to_ms b - to_ms a) / (to_ms (ts_d1 s) - to_ms (ts_d0 s)).
Proof.
  intros H. pose proof (nondeg_ms s H) as Hm. unfold ts_progress. field.
  intros C. apply Hm. lra.
Qed.

(* later instants lie strictly farther along the domain (towards d1) *)
Theorem ts_progress_mono s a b : (to_us (ts_d0 s) < to_us (ts_d1 s))%Z ->
  (to_us a < to_us b)%Z -> ts_progress s a < ts_progress s b.
Proof.
  intros Hd Hab.
  assert (H : nondegenerate s) by (unfold nondegenerate; lia).
  pose proof (progress_diff s a b H) as E.
  apply to_ms_lt in Hd. apply to_ms_lt in Hab.
  assert (P : 0 < (to_ms b - to_ms a) / (to_ms (ts_d1 s) - to_ms (ts_d0 s))).
  { apply Qlt_shift_div_l; lra. }
  lra.
Qed.

Theorem ts_progress_anti s a b : (to_us (ts_d1 s) < to_us (ts_d0 s))%Z ->
  (to_us a < to_us b)%Z -> ts_progress s b < ts_progress s a.
Proof.
  intros Hd Hab.
  assert (H : nondegenerate s) by (unfold nondegenerate; lia).
  pose proof (progress_diff s b a H) as E.
  apply to_ms_lt in Hd. apply to_ms_lt in Hab.
  assert (P : 0 < (to_ms b - to_ms a) / (to_ms (ts_d0 s) - to_ms (ts_d1 s))).
  { apply Qlt_shift_div_l; lra. }
  assert (E2 : (to_ms a - to_ms b) / (to_ms (ts_d1 s) - to_ms (ts_d0 s)) ==
               (to_ms b - to_ms a) / (to_ms (ts_d0 s) - to_ms (ts_d1 s))).
  { field. split; intros C; lra. }
  lra.
Qed.

Theorem ts_strict_mono s a b :
  (to_us (ts_d0 s) < to_us (ts_d1 s))%Z -> ts_r0 s < ts_r1 s ->
  (to_us a < to_us b)%Z -> ts_apply s a < ts_apply s b.
Proof.
  intros Hd Hr Hab.
  assert (H : nondegenerate s) by (unfold nondegenerate; lia).
  pose proof (ts_progress_mono s a b Hd Hab) as P.
  rewrite !(ts_affine s _ H).
  assert (0 < (ts_r1 s - ts_r0 s) * (ts_progress s b - ts_progress s a)).
  { apply Qmult_lt_0_compat; lra. }
  lra.
Qed.

(* ---------- invert -------------------------------------------------------------- *)
Lemma qround_int q z : q == inject_Z z -> qround_half_even q = z.
Proof.
  intros E. unfold qround_half_even.
  assert (F : Qfloor q = z) by (rewrite E; apply Qfloor_Z).
  rewrite F.
  assert (C : Qcompare (q - inject_Z z) (1 # 2) = Lt).
  { rewrite E. apply (proj1 (Qlt_alt _ _)). lra. }
  rewrite C. reflexivity.
Qed.

Theorem ts_invert_ms_apply s t : nondegenerate s -> ~ ts_r1 s == ts_r0 s ->
  ts_invert_ms s (ts_apply s t) == to_ms t.
Proof.
  intros H Hr. pose proof (nondeg_ms s H) as Hm. unfold ts_invert_ms.
  rewrite (lin_last_comp _ _ _ _ _ _ (ts_affine s t H)). unfold ts_progress.
  apply lin_inverse; assumption.
Qed.

Theorem ts_invert_apply s t : valid t -> nondegenerate s -> ~ ts_r1 s == ts_r0 s ->
  ts_invert s (ts_apply s t) = Ok t.
Proof.
  intros Hv H Hr. unfold ts_invert.
  rewrite (qround_int _ (to_us t)).
  - rewrite of_us_chk_in_range by (apply valid_in_range; exact Hv).
    rewrite of_us_to_us by (apply valid_wf; exact Hv). reflexivity.
  - rewrite (ts_invert_ms_apply s t H Hr). apply to_ms_times_1000.
Qed.

Theorem ts_domain_ok s : valid (ts_d0 s) -> valid (ts_d1 s) ->
  ts_domain s = (Ok (ts_d0 s), Ok (ts_d1 s)).
Proof.
  intros H0 H1. unfold ts_domain.
  rewrite !of_us_chk_in_range by (apply valid_in_range; assumption).
  rewrite !of_us_to_us by (apply valid_wf; assumption). reflexivity.
Qed.
