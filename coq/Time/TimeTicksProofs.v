(* Proofs about Time/TimeTicks.v (property C16), on top of the interval theory. *)
From Coq Require Import ZArith QArith Qround Lia Lqa ZifyBool ZifyN ZifyNat List Bool Sorted.
From Labella Require Import Time.Calendar Time.CalendarProofs Time.Interval Time.IntervalSpec
  Time.IntervalProofs Time.UnitProofs Time.TimeScale Time.TimeScaleProofs Time.TimeTicks.
Import ListNotations.
Ltac Zify.zify_post_hook ::= Z.to_euclidean_division_equations.
Open Scope Z_scope.

(* ---------- ilog10 never runs out of fuel ------------------------------------ *)
Lemma Qle_bool_10 n d : Qle_bool 10 (n # d) = (10 * Zpos d <=? n).
Proof. unfold Qle_bool. cbn [Qnum Qden]. f_equal; lia. Qed.
Lemma Qle_bool_1 n d : Qle_bool 1 (n # d) = (Zpos d <=? n).
Proof. unfold Qle_bool. cbn [Qnum Qden]. f_equal; lia. Qed.

Lemma ilog10_up_enough fuel : forall n d e,
  n < Zpos d * 2 ^ Z.of_nat fuel -> ilog10_up fuel (n # d) e <> None.
Proof.
  induction fuel as [|fuel IH]; intros n d e H; cbn [ilog10_up]; rewrite Qle_bool_10;
    destruct (10 * Zpos d <=? n) eqn:C; try discriminate.
  - cbn in H. lia.
  - unfold Qdiv, Qinv, Qmult. cbn [Qnum Qden]. apply IH.
    rewrite Nat2Z.inj_succ, Z.pow_succ_r in H by lia.
    rewrite Pos2Z.inj_mul. lia.
Qed.

Lemma ilog10_down_enough fuel : forall n d e,
  0 < n -> Zpos d <= n * 2 ^ Z.of_nat fuel -> ilog10_down fuel (n # d) e <> None.
Proof.
  induction fuel as [|fuel IH]; intros n d e Hn H; cbn [ilog10_down]; rewrite Qle_bool_1;
    destruct (Zpos d <=? n) eqn:C; try discriminate.
  - cbn in H. lia.
  - unfold Qmult. cbn [Qnum Qden]. apply IH; [lia|].
    rewrite Nat2Z.inj_succ, Z.pow_succ_r in H by lia.
    rewrite Pos2Z.inj_mul. lia.
Qed.

Lemma lt_pow2_log2 n : 0 < n -> n < 2 ^ (Z.log2 n + 1).
Proof. intros H. pose proof (Z.log2_spec n H). replace (Z.log2 n + 1) with (Z.succ (Z.log2 n)) by lia. lia. Qed.

Theorem ilog10_fuel_enough (q : Q) : (0 < q)%Q -> ilog10 q <> None.
Proof.
  destruct q as [n d]. intros Hq. unfold Qlt in Hq. cbn [Qnum Qden] in Hq.
  assert (Hn : 0 < n) by lia.
  unfold ilog10, ilog10_fuel. cbn [Qnum Qden].
  rewrite Z.abs_eq by lia.
  set (a := Z.log2 n). set (b := Z.log2 (Zpos d)).
  assert (Ha : 0 <= a) by apply Z.log2_nonneg. assert (Hb : 0 <= b) by apply Z.log2_nonneg.
  replace (Z.of_nat (S (Z.to_nat (a + b)))) with (a + b + 1) by lia.
  pose proof (lt_pow2_log2 n Hn) as Pn. fold a in Pn.
  pose proof (lt_pow2_log2 (Zpos d) ltac:(lia)) as Pd. fold b in Pd.
  assert (Pab : 2 ^ (a + 1) <= 2 ^ (a + b + 1)) by (apply Z.pow_le_mono_r; lia).
  assert (Pba : 2 ^ (b + 1) <= 2 ^ (a + b + 1)) by (apply Z.pow_le_mono_r; lia).
  rewrite Qle_bool_1. destruct (Zpos d <=? n) eqn:C.
  - apply ilog10_up_enough.
    replace (Z.of_nat (S (Z.to_nat (a + b)))) with (a + b + 1) by lia.
    assert (n * 1 <= Zpos d * 2 ^ (a + b + 1) - 1 \/ True) by (right; exact I). nia.
  - apply ilog10_down_enough; [exact Hn|].
    replace (Z.of_nat (S (Z.to_nat (a + b)))) with (a + b + 1) by lia. nia.
Qed.

(* ---------- the tick method is always defined --------------------------------- *)
Lemma inject_Z_pos m : 0 < m -> (0 < inject_Z m)%Q.
Proof. intros H. unfold Qlt, inject_Z. cbn [Qnum Qden]. lia. Qed.

Lemma lin_tick_step_total lo hi m : (lo <= hi)%Q -> 0 < m ->
  exists st, lin_tick_step lo hi m = Ok st.
Proof.
  intros Hle Hm. unfold lin_tick_step. cbv zeta.
  destruct (Qeq_bool (hi - lo) 0) eqn:E; [eexists; reflexivity|].
  apply Qeq_bool_neq in E.
  destruct (m <=? 0) eqn:C; [lia|].
  assert (Hq : (0 < (hi - lo) / inject_Z m)%Q).
  { apply Qlt_shift_div_l; [apply inject_Z_pos; exact Hm|].
    assert ((0 < hi - lo)%Q) by (destruct (Qlt_le_dec 0 (hi - lo)) as [G|G]; [exact G|exfalso; apply E; lra]).
    lra. }
  pose proof (ilog10_fuel_enough _ Hq) as F.
  destruct (ilog10 ((hi - lo) / inject_Z m)); [eexists; reflexivity|contradiction].
Qed.

Theorem tick_method_total e0 e1 count : (e0 <= e1)%Q -> 0 < count ->
  exists meth, tick_method_of e0 e1 count = Ok meth.
Proof.
  intros Hle Hc. unfold tick_method_of. destruct (count <=? 0) eqn:C; [lia|]. cbv zeta.
  destruct (Nat.eqb _ (length scale_steps)).
  - destruct (lin_tick_step_total (e0 / 31536000000) (e1 / 31536000000) count) as [st E]; [|exact Hc|].
    + unfold Qdiv. apply Qmult_le_compat_r; [exact Hle|]. unfold Qle. cbn. lia.
    + rewrite E. eexists; reflexivity.
  - destruct (Nat.eqb _ 0).
    + destruct (lin_tick_step_total e0 e1 count Hle Hc) as [st E]. rewrite E. eexists; reflexivity.
    + match goal with |- context [nth ?p scale_methods ?d] => destruct (nth p scale_methods d) as [u k] end.
      eexists; reflexivity.
Qed.

(* ---------- millisecond ticks --------------------------------------------------- *)
Lemma ceil_mult a st : 0 < st -> a <= - ((- a) / st) * st < a + st.
Proof.
  intros H. pose proof (Z.div_mod (- a) st ltac:(lia)).
  pose proof (Z.mod_pos_bound (- a) st H). nia.
Qed.

Lemma ms_loop_spec fuel : forall cur stop st l, 0 < st ->
  ms_loop fuel cur stop st = Ok l ->
  Forall valid l /\ StronglySorted lt_us l /\
  Forall (fun x => cur * 1000 <= to_us x < stop * 1000 /\ to_us x mod 1000 = 0) l.
Proof.
  induction fuel as [|fuel IH]; intros cur stop st l Hst H; cbn [ms_loop] in H;
    destruct (cur <? stop) eqn:C; try discriminate.
  - injection H as <-. repeat constructor.
  - apply rbind_ok in H. destruct H as (t & E1 & H).
    apply rbind_ok in H. destruct H as (rest & E2 & H). injection H as <-.
    apply of_us_chk_ok in E1. destruct E1 as [Hv Et].
    destruct (IH _ _ _ _ Hst E2) as (F1 & F2 & F3).
    split; [constructor; assumption|]. split.
    + constructor; [exact F2|]. eapply Forall_impl; [|exact F3].
      cbn. unfold lt_us. intros x [Hx _]. lia.
    + constructor; [lia|]. eapply Forall_impl; [|exact F3]. cbn. intros x [Hx Hm]. lia.
  - injection H as <-. repeat constructor.
Qed.

Lemma ms_loop_total fuel : forall cur stop st, 0 < st ->
  MIN_US <= cur * 1000 -> stop * 1000 <= MAX_US + 1000 ->
  stop - cur <= st * Z.of_nat fuel -> exists l, ms_loop fuel cur stop st = Ok l.
Proof.
  induction fuel as [|fuel IH]; intros cur stop st Hst Hlo Hhi Hf; cbn [ms_loop];
    destruct (cur <? stop) eqn:C; try (eexists; reflexivity).
  - lia.
  - rewrite of_us_chk_in_range by (apply in_range_iff; lia). cbn [rbind].
    destruct (IH (cur + st) stop st Hst ltac:(lia) Hhi) as [l E].
    + replace (st * Z.of_nat (S fuel)) with (st * Z.of_nat fuel + st) in Hf by lia. lia.
    + rewrite E. cbn [rbind]. eexists; reflexivity.
Qed.

Lemma qtrunc_to_ms t : ms_resolution t -> qtrunc (to_ms t) * 1000 = to_us t.
Proof. unfold ms_resolution, qtrunc, to_ms. cbn [Qnum Qden]. intros H. lia. Qed.

Lemma ms_range_spec t0 t1 step l : ms_resolution t0 -> ms_resolution t1 ->
  ms_range t0 t1 step = Ok l ->
  Forall valid l /\ StronglySorted lt_us l /\
  Forall (fun x => to_us t0 <= to_us x < to_us t1 /\ to_us x mod 1000 = 0) l.
Proof.
  intros H0 H1 H. unfold ms_range in H. cbv zeta in H.
  set (st := Z.max 1 (qtrunc step)) in *.
  assert (Hst : 0 < st) by (subst st; lia).
  apply ms_loop_spec in H; [|exact Hst]. destruct H as (F1 & F2 & F3).
  split; [exact F1|]. split; [exact F2|].
  eapply Forall_impl; [|exact F3]. cbn. intros x [[Hlo Hhi] Hm].
  pose proof (ceil_mult (qtrunc (to_ms t0)) st Hst).
  rewrite <- (qtrunc_to_ms t0 H0), <- (qtrunc_to_ms t1 H1). lia.
Qed.

Lemma ms_range_total t0 t1 step : valid t0 -> valid t1 -> ms_resolution t0 -> ms_resolution t1 ->
  exists l, ms_range t0 t1 step = Ok l.
Proof.
  intros V0 V1 H0 H1. unfold ms_range. cbv zeta.
  set (st := Z.max 1 (qtrunc step)).
  assert (Hst : 0 < st) by (subst st; lia).
  pose proof (ceil_mult (qtrunc (to_ms t0)) st Hst) as Hc.
  pose proof (qtrunc_to_ms t0 H0) as E0. pose proof (qtrunc_to_ms t1 H1) as E1.
  apply valid_in_range, in_range_iff in V0. apply valid_in_range, in_range_iff in V1.
  set (first := - (- qtrunc (to_ms t0) / st) * st) in *.
  set (b := qtrunc (to_ms t1)) in *.
  apply ms_loop_total; [exact Hst|lia|lia|].
  destruct (Z_le_gt_dec 0 ((b - first) / st + 1)) as [G|G].
  - replace (Z.of_nat (Z.to_nat ((b - first) / st + 1))) with ((b - first) / st + 1) by lia.
    pose proof (Z.div_mod (b - first) st ltac:(lia)).
    pose proof (Z.mod_pos_bound (b - first) st Hst). nia.
  - replace (Z.of_nat (Z.to_nat ((b - first) / st + 1))) with 0 by lia.
    pose proof (Z.div_mod (b - first) st ltac:(lia)).
    pose proof (Z.mod_pos_bound (b - first) st Hst). nia.
Qed.

(* ---------- ticks ----------------------------------------------------------------- *)

Lemma dom_lo_hi d0 d1 :
  to_us (dom_lo d0 d1) <= to_us (dom_hi d0 d1) /\
  ((dom_lo d0 d1 = d0 /\ dom_hi d0 d1 = d1) \/ (dom_lo d0 d1 = d1 /\ dom_hi d0 d1 = d0)).
Proof. unfold dom_lo, dom_hi, dt_ltb. destruct (to_us d0 <? to_us d1) eqn:C; split; auto; lia. Qed.

(* what a successful call consists of *)
Definition ticks_run (d0 d1 : dt) (m : Z) (meth : tick_method) (t1 : dt) (l : list dt) : Prop :=
  tick_method_of (to_ms (dom_lo d0 d1)) (to_ms (dom_hi d0 d1)) m = Ok meth /\
  valid t1 /\ to_us t1 = to_us (dom_hi d0 d1) + 1000 /\
  match meth with
  | TMillis st => ms_range (dom_lo d0 d1) t1 st = Ok l
  | TUnit u sk => iv_range (interval_of u) (dom_lo d0 d1) t1 (skip_of sk) = Ok l
  end.

Lemma ts_ticks_unfold d0 d1 m : valid (dom_lo d0 d1) ->
  ts_ticks d0 d1 m =
  match tick_method_of (to_ms (dom_lo d0 d1)) (to_ms (dom_hi d0 d1)) m with
  | Ok meth =>
      match of_us_chk (to_us (dom_hi d0 d1) + 1000) with
      | Ok t1 =>
          match meth with
          | TMillis step => ms_range (dom_lo d0 d1) t1 step
          | TUnit u skip => iv_range (interval_of u) (dom_lo d0 d1) t1 (skip_of skip)
          end
      | Raise => Raise
      | NoFuel => NoFuel
      end
  | Raise => Raise
  | NoFuel => NoFuel
  end.
Proof.
  intros Vlo. unfold ts_ticks. cbv zeta.
  destruct (tick_method_of (to_ms (dom_lo d0 d1)) (to_ms (dom_hi d0 d1)) m) as [meth| |]; try reflexivity.
  rewrite (of_us_chk_in_range _ (valid_in_range _ Vlo)).
  rewrite (of_us_to_us _ (valid_wf _ Vlo)).
  reflexivity.
Qed.

Lemma ts_ticks_run d0 d1 m l : valid d0 -> valid d1 -> ts_ticks d0 d1 m = Ok l ->
  exists meth t1, ticks_run d0 d1 m meth t1 l.
Proof.
  intros V0 V1 H.
  assert (Vlo : valid (dom_lo d0 d1)) by (unfold dom_lo; destruct (dt_ltb d0 d1); assumption).
  rewrite (ts_ticks_unfold d0 d1 m Vlo) in H.
  destruct (tick_method_of (to_ms (dom_lo d0 d1)) (to_ms (dom_hi d0 d1)) m) as [meth| |] eqn:EM;
    try discriminate.
  destruct (of_us_chk (to_us (dom_hi d0 d1) + 1000)) as [t1| |] eqn:E1; try discriminate.
  apply of_us_chk_ok in E1. destruct E1 as [Vt1 Et1].
  exists meth, t1. unfold ticks_run. split; [exact EM|]. split; [exact Vt1|]. split; [exact Et1|].
  destruct meth; exact H.
Qed.

Lemma boundary_ms u x : is_boundary u x -> x mod 1000 = 0.
Proof.
  intros H. apply (uo_P _ _ (all_units_ok u)) in H. destruct H as [k ->].
  apply (uo_ms _ _ (all_units_ok u)).
Qed.

Theorem ticks_spec d0 d1 m l : valid d0 -> valid d1 -> ms_resolution d0 -> ms_resolution d1 ->
  ts_ticks d0 d1 m = Ok l ->
  Forall valid l /\ StronglySorted lt_us l /\
  Forall (fun x => to_us (dom_lo d0 d1) <= to_us x <= to_us (dom_hi d0 d1)) l /\
  exists meth, tick_method_of (to_ms (dom_lo d0 d1)) (to_ms (dom_hi d0 d1)) m = Ok meth /\
    match meth with
    | TMillis _ => Forall ms_resolution l
    | TUnit u _ => Forall (fun x => is_boundary u (to_us x)) l
    end.
Proof.
  intros V0 V1 M0 M1 H.
  destruct (ts_ticks_run d0 d1 m l V0 V1 H) as (meth & t1 & EM & Vt1 & Et1 & R).
  destruct (dom_lo_hi d0 d1) as [Hle Hc].
  assert (Vlo : valid (dom_lo d0 d1)) by (destruct Hc as [[-> _]|[-> _]]; assumption).
  assert (Mlo : ms_resolution (dom_lo d0 d1)) by (destruct Hc as [[-> _]|[-> _]]; assumption).
  assert (Mhi : ms_resolution (dom_hi d0 d1)) by (destruct Hc as [[_ ->]|[_ ->]]; assumption).
  assert (Mt1 : ms_resolution t1) by (unfold ms_resolution in *; rewrite Et1; lia).
  destruct meth as [st|u sk].
  - destruct (ms_range_spec _ _ _ _ Mlo Mt1 R) as (F1 & F2 & F3).
    split; [exact F1|]. split; [exact F2|]. split.
    + eapply Forall_impl; [|exact F3]. cbn. unfold ms_resolution in *. intros x [Hx Hm]. lia.
    + exists (TMillis st). split; [exact EM|].
      eapply Forall_impl; [|exact F3]. cbn. intros x [_ Hm]. exact Hm.
  - destruct (units_range_spec u _ _ _ _ Vlo Mlo R) as (F1 & F2 & F3).
    assert (F4 : Forall (fun x => is_boundary u (to_us x) /\
                         to_us (dom_lo d0 d1) <= to_us x < to_us t1) l).
    { apply Forall_forall. intros x Hx.
      assert (Vx : valid x) by (rewrite Forall_forall in F1; apply F1; exact Hx).
      apply (F3 x Vx) in Hx. tauto. }
    split; [exact F1|]. split; [exact F2|]. split.
    + eapply Forall_impl; [|exact F4]. cbn. intros x [Hb Hx].
      apply boundary_ms in Hb. unfold ms_resolution in *. lia.
    + exists (TUnit u sk). split; [exact EM|].
      eapply Forall_impl; [|exact F4]. cbn. intros x [Hb _]. exact Hb.
Qed.

(* years 2..9997 also leave room for the extra millisecond *)
Lemma year_window_ms t : valid t -> 2 <= dt_y t <= 9997 ->
  to_us t + 1000 + YEAR_MAX_US <= MAX_US.
Proof.
  intros Hv Hy. pose proof (to_us_year_bounds t (valid_wf t Hv)) as Bd.
  pose proof (first_of_month_le (12 * dt_y t + 12) 119976 ltac:(lia)) as G2.
  assert (E2 : first_of_month 119976 = 2932167) by reflexivity.
  unfold MAX_US, YEAR_MAX_US. lia.
Qed.

Theorem ticks_total d0 d1 m : valid d0 -> valid d1 -> ms_resolution d0 -> ms_resolution d1 ->
  2 <= dt_y d0 <= 9997 -> 2 <= dt_y d1 <= 9997 -> 0 < m ->
  exists l, ts_ticks d0 d1 m = Ok l.
Proof.
  intros V0 V1 M0 M1 Y0 Y1 Hm.
  destruct (dom_lo_hi d0 d1) as [Hle Hc].
  assert (Vlo : valid (dom_lo d0 d1)) by (destruct Hc as [[-> _]|[-> _]]; assumption).
  assert (Vhi : valid (dom_hi d0 d1)) by (destruct Hc as [[_ ->]|[_ ->]]; assumption).
  assert (Mlo : ms_resolution (dom_lo d0 d1)) by (destruct Hc as [[-> _]|[-> _]]; assumption).
  assert (Mhi : ms_resolution (dom_hi d0 d1)) by (destruct Hc as [[_ ->]|[_ ->]]; assumption).
  assert (Ylo : 2 <= dt_y (dom_lo d0 d1) <= 9997) by (destruct Hc as [[-> _]|[-> _]]; assumption).
  assert (Yhi : 2 <= dt_y (dom_hi d0 d1) <= 9997) by (destruct Hc as [[_ ->]|[_ ->]]; assumption).
  unfold ts_ticks. cbv zeta.
  destruct (tick_method_total (to_ms (dom_lo d0 d1)) (to_ms (dom_hi d0 d1)) m) as [meth EM]; [|exact Hm|].
  { destruct (Z.eq_dec (to_us (dom_lo d0 d1)) (to_us (dom_hi d0 d1))) as [E|NE].
    - apply to_ms_eq in E. rewrite E. apply Qle_refl.
    - apply Qlt_le_weak, to_ms_lt. lia. }
  rewrite EM.
  rewrite of_us_chk_in_range by (apply valid_in_range; exact Vlo).
  rewrite of_us_to_us by (apply valid_wf; exact Vlo). cbn [rbind].
  pose proof (year_window_ms _ Vhi Yhi) as Whi.
  pose proof (valid_in_range _ Vhi) as Rhi. apply in_range_iff in Rhi.
  assert (R1 : in_range (to_us (dom_hi d0 d1) + 1000) = true).
  { apply in_range_iff. unfold YEAR_MAX_US in Whi. lia. }
  rewrite (of_us_chk_in_range _ R1). cbn [rbind].
  pose proof (of_us_valid _ R1) as Vt1. pose proof (to_us_of_us (to_us (dom_hi d0 d1) + 1000)) as Et1.
  set (t1 := of_us (to_us (dom_hi d0 d1) + 1000)) in *.
  assert (Mt1 : ms_resolution t1) by (unfold ms_resolution in *; rewrite Et1; lia).
  destruct meth as [st|u sk].
  - apply ms_range_total; assumption.
  - destruct (year_window _ Vlo Ylo) as [Wlo1 Wlo2].
    apply (g_range_total _ _ (all_units_ok u)); try assumption. lia.
Qed.

(* ---------- a boundary of a unit is a boundary of every finer unit --------------- *)
Lemma first_day_midnight y m : 1 <= m <= 12 -> to_us (first_day y m) mod 86400000000 = 0.
Proof. intros H. rewrite to_us_first_day by exact H. lia. Qed.

Theorem boundary_coarser x :
  (is_boundary UYear x -> is_boundary UMonth x) /\
  (is_boundary UMonth x -> is_boundary UDay x) /\
  (is_boundary UWeek x -> is_boundary UDay x) /\
  (is_boundary UDay x -> is_boundary UHour x) /\
  (is_boundary UHour x -> is_boundary UMinute x) /\
  (is_boundary UMinute x -> is_boundary USecond x).
Proof.
  unfold is_boundary. repeat split.
  - intros [y ->]. exists y, 1. split; [lia|reflexivity].
  - intros (y & m & Hm & ->). apply (first_day_midnight y m Hm).
  - intros [H _]. exact H.
  - lia.
  - lia.
  - lia.
Qed.

(* ... and, read on the calendar fields of a valid datetime: *)
Theorem boundary_fields t : valid t ->
  (is_boundary USecond (to_us t) -> dt_us t = 0) /\
  (is_boundary UMinute (to_us t) -> dt_s t = 0 /\ dt_us t = 0) /\
  (is_boundary UHour (to_us t) -> dt_mi t = 0 /\ dt_s t = 0 /\ dt_us t = 0) /\
  (is_boundary UDay (to_us t) -> dt_h t = 0 /\ dt_mi t = 0 /\ dt_s t = 0 /\ dt_us t = 0) /\
  (is_boundary UMonth (to_us t) -> dt_d t = 1) /\
  (is_boundary UYear (to_us t) -> dt_mo t = 1 /\ dt_d t = 1).
Proof.
  intros Hv. pose proof (valid_wf t Hv) as Hw.
  destruct (to_us_days t Hw) as [_ Hr].
  apply wf_unfold in Hw. destruct Hw as (_ & Hh & Hmi & Hs & Hus).
  unfold is_boundary. repeat split; try lia.
  - intros (y & m & Hm & E).
    assert (t = first_day y m) as -> by (apply to_us_inj; [apply valid_wf; exact Hv|apply first_day_wf; exact Hm|exact E]).
    reflexivity.
  - destruct H as [y E].
    assert (t = first_day y 1) as -> by (apply to_us_inj; [apply valid_wf; exact Hv|apply first_day_wf; lia|exact E]).
    reflexivity.
  - destruct H as [y E].
    assert (t = first_day y 1) as -> by (apply to_us_inj; [apply valid_wf; exact Hv|apply first_day_wf; lia|exact E]).
    reflexivity.
Qed.
