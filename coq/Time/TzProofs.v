(* Proofs for Time/TzModel.v.  They are immediate BY DESIGN: the model of the
   current code does not use its `tz` parameter.  See the header of
   Time/TzModel.v for what this does and does not establish. *)
From Coq Require Import ZArith List Bool.
From Labella Require Import Time.Calendar Time.Interval Time.TzModel.
Open Scope Z_scope.

Lemma time_api_independent (tz : Z -> Z) (c : time_call) : time_api tz c = time_api utc c.
Proof. reflexivity. Qed.

Lemma conversions_independent (tz : Z -> Z) :
  (forall t, dt2us_now tz t = dt2us_now utc t) /\
  (forall z, us2dt_now tz z = us2dt_now utc z).
Proof. split; reflexivity. Qed.
