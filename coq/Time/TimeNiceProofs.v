(* Proofs about Time/TimeNice.v (the time part of property C14). *)
From Coq Require Import ZArith QArith Qround Lia Lqa ZifyBool ZifyN ZifyNat List Bool Sorted.
From Labella Require Import Time.Calendar Time.CalendarProofs Time.Interval Time.IntervalSpec
  Time.IntervalProofs Time.UnitProofs Time.TimeScale Time.TimeScaleProofs Time.TimeTicks
  Time.TimeTicksProofs Time.TimeNice.
Import ListNotations.
Ltac Zify.zify_post_hook ::= Z.to_euclidean_division_equations.
Open Scope Z_scope.

(* an end point produced by nice is "aligned" with the method:
   calendar unit: a boundary of the unit whose unit number is divisible by the
   skip (if the skip exceeds 1); milliseconds: a whole millisecond, divisible
   by the integer step (if it exceeds 1) *)
Definition aligned (meth : tick_method) (x : dt) : Prop :=
  match meth with
  | TUnit u sk =>
      is_boundary u (to_us x) /\ (1 < skip_of sk -> unit_number u x mod skip_of sk = 0)
  | TMillis st =>
      ms_resolution x /\ (1 < qtrunc st -> (to_us x / 1000) mod qtrunc st = 0)
  end.

Lemma skip_of_le sk : Qle_bool sk 1 = true -> skip_of sk <= 1.
Proof.
  intros H. apply Qle_bool_iff in H. unfold skip_of. destruct (Qle_bool 1 sk); [|lia].
  pose proof (Qfloor_resp_le _ _ H) as G. change (Qfloor 1) with 1 in G. exact G.
Qed.

Lemma qtrunc_le st : Qle_bool st 1 = true -> qtrunc st <= 1.
Proof.
  intros H. apply Qle_bool_iff in H. destruct st as [n d]. unfold qtrunc, Qle in *.
  cbn [Qnum Qden] in *.
  destruct (Z_lt_le_dec n 0) as [G|G].
  - replace n with (- (- n)) by lia. rewrite Z.quot_opp_l by lia.
    rewrite Z.quot_div_nonneg by lia.
    pose proof (Z.div_pos (- n) (Z.pos d) ltac:(lia) ltac:(lia)). lia.
  - rewrite Z.quot_div_nonneg by lia. apply Z.div_le_upper_bound; lia.
Qed.

(* ---------- calendar units ------------------------------------------------------- *)
Section UnitNice.
  Variable u : unit_id.
  Variable sk : Q.
  Local Notation iv := (interval_of u).
  Local Notation P := (is_boundary u).
  Local Notation meth := (TUnit u sk).
  Local Notation st := (skip_of sk).

  Lemma skipped_unit b v : valid b -> P (to_us b) -> skipped meth b = Ok v ->
    v = negb (keep iv b st).
  Proof.
    intros Vb Pb H. unfold skipped in H.
    apply rbind_ok in H. destruct H as (t1 & E1 & H).
    apply rbind_ok in H. destruct H as (l & E2 & H). injection H as <-.
    apply of_us_chk_ok in E1. destruct E1 as [V1 Et1].
    pose proof (boundary_ms u _ Pb) as Mb.
    cbn [ni_range] in E2.
    destruct (g_range _ _ (all_units_ok u) b t1 st l Vb Mb E2) as (F1 & F2 & F3).
    destruct (keep iv b st) eqn:K.
    - assert (Hin : In b l).
      { apply (F3 b Vb). split; [exact Pb|]. split; [lia|]. apply keep_iff. exact K. }
      destruct l; [destruct Hin|reflexivity].
    - destruct l as [|x r]; [reflexivity|]. exfalso.
      assert (Vx : valid x) by (inversion F1; assumption).
      pose proof (proj1 (F3 x Vx) (or_introl eq_refl)) as (Px & Hx & Kx).
      pose proof (boundary_ms u _ Px) as Mx.
      assert (x = b) as -> by (apply to_us_inj; [apply valid_wf; exact Vx|apply valid_wf; exact Vb|lia]).
      apply keep_iff in Kx. congruence.
  Qed.

  Lemma nice_floor_loop_unit fuel : forall nd r, valid nd -> P (to_us nd) ->
    nice_floor_loop fuel meth nd = Ok r ->
    valid r /\ P (to_us r) /\ to_us r <= to_us nd /\ keep iv r st = true.
  Proof.
    induction fuel as [|fuel IH]; intros nd r Vn Pn H; cbn [nice_floor_loop] in H;
      apply rbind_ok in H; destruct H as (v & Ev & H);
      apply (skipped_unit nd v Vn Pn) in Ev; destruct (keep iv nd st) eqn:K; subst v; cbn [negb] in H.
    - injection H as <-. repeat split; try assumption; lia.
    - discriminate.
    - injection H as <-. repeat split; try assumption; lia.
    - apply rbind_ok in H. destruct H as (d & E1 & H).
      apply rbind_ok in H. destruct H as (nd' & E2 & H).
      apply of_us_chk_ok in E1. destruct E1 as [Vd Ed].
      cbn [ni_floor] in E2.
      destruct (g_floor _ _ (all_units_ok u) d nd' Vd E2) as (Vn' & Hle & Pn' & _).
      destruct (IH nd' r Vn' Pn' H) as (Vr & Pr & Hr & Kr).
      repeat split; try assumption. lia.
  Qed.

  Lemma nice_ceil_loop_unit fuel : forall nd r, valid nd -> P (to_us nd) ->
    nice_ceil_loop fuel meth nd = Ok r ->
    valid r /\ P (to_us r) /\ to_us nd <= to_us r /\ keep iv r st = true.
  Proof.
    induction fuel as [|fuel IH]; intros nd r Vn Pn H; cbn [nice_ceil_loop] in H;
      apply rbind_ok in H; destruct H as (v & Ev & H);
      apply (skipped_unit nd v Vn Pn) in Ev; destruct (keep iv nd st) eqn:K; subst v; cbn [negb] in H.
    - injection H as <-. repeat split; try assumption; lia.
    - discriminate.
    - injection H as <-. repeat split; try assumption; lia.
    - apply rbind_ok in H. destruct H as (d & E1 & H).
      apply rbind_ok in H. destruct H as (nd' & E2 & H).
      apply of_us_chk_ok in E1. destruct E1 as [Vd Ed].
      cbn [ni_ceil] in E2.
      pose proof (boundary_ms u _ Pn) as Mn.
      assert (Md : ms_resolution d) by (unfold ms_resolution; rewrite Ed; lia).
      destruct (g_ceil _ _ (all_units_ok u) d nd' Vd Md E2) as (Vn' & Hle & Pn' & _).
      destruct (IH nd' r Vn' Pn' H) as (Vr & Pr & Hr & Kr).
      repeat split; try assumption. lia.
  Qed.

  Lemma keep_aligned r : valid r -> P (to_us r) -> keep iv r st = true -> aligned meth r.
  Proof.
    intros Vr Pr K. split; [exact Pr|]. rewrite <- (number_is_unit_number u r Vr).
    apply keep_iff. exact K.
  Qed.

  Lemma keep_small r : st <= 1 -> keep iv r st = true.
  Proof. intros H. unfold keep. destruct (st >? 1) eqn:C; [lia|reflexivity]. Qed.

  Theorem nice_floor_unit t r : valid t -> nice_floor meth t = Ok r ->
    valid r /\ to_us r <= to_us t /\ aligned meth r.
  Proof.
    intros Vt H. unfold nice_floor in H. cbn [ni_skip ni_floor] in H.
    destruct (Qle_bool sk 1) eqn:C.
    - destruct (g_floor _ _ (all_units_ok u) t r Vt H) as (Vr & Hle & Pr & _).
      split; [exact Vr|]. split; [exact Hle|].
      apply keep_aligned; [exact Vr|exact Pr|apply keep_small, skip_of_le, C].
    - apply rbind_ok in H. destruct H as (f & E1 & H).
      destruct (g_floor _ _ (all_units_ok u) t f Vt E1) as (Vf & Hle & Pf & _).
      destruct (nice_floor_loop_unit _ f r Vf Pf H) as (Vr & Pr & Hr & Kr).
      split; [exact Vr|]. split; [lia|]. apply keep_aligned; assumption.
  Qed.

  Theorem nice_ceil_unit t r : valid t -> ms_resolution t -> nice_ceil meth t = Ok r ->
    valid r /\ to_us t <= to_us r /\ aligned meth r.
  Proof.
    intros Vt Mt H. unfold nice_ceil in H. cbn [ni_skip ni_ceil] in H.
    destruct (Qle_bool sk 1) eqn:C.
    - destruct (g_ceil _ _ (all_units_ok u) t r Vt Mt H) as (Vr & Hle & Pr & _).
      split; [exact Vr|]. split; [exact Hle|].
      apply keep_aligned; [exact Vr|exact Pr|apply keep_small, skip_of_le, C].
    - apply rbind_ok in H. destruct H as (f & E1 & H).
      destruct (g_ceil _ _ (all_units_ok u) t f Vt Mt E1) as (Vf & Hle & Pf & _).
      destruct (nice_ceil_loop_unit _ f r Vf Pf H) as (Vr & Pr & Hr & Kr).
      split; [exact Vr|]. split; [lia|]. apply keep_aligned; assumption.
  Qed.
End UnitNice.

(* ---------- milliseconds ------------------------------------------------------------ *)
Definition ms_step (stq : Q) : Z := Z.max 1 (qtrunc stq).

Lemma ceil_mult_exact a s : 0 < s -> (- ((- a) / s) * s = a <-> a mod s = 0).
Proof.
  intros H. pose proof (Z.div_mod (- a) s ltac:(lia)) as E1.
  pose proof (Z.mod_pos_bound (- a) s H) as B1.
  pose proof (Z.div_mod a s ltac:(lia)) as E2.
  pose proof (Z.mod_pos_bound a s H) as B2.
  split; intros G.
  - assert (a = s * (- ((- a) / s))) as -> by lia. rewrite Z.mul_comm. apply Z.mod_mul. lia.
  - assert (Hz : (- a) mod s = 0).
    { replace (- a) with (s * (- (a / s))) by lia. rewrite Z.mul_comm. apply Z.mod_mul. lia. }
    lia.
Qed.

Lemma ms_range_window t0 t1 stq l : ms_resolution t0 -> to_us t1 = to_us t0 + 1000 ->
  ms_range t0 t1 stq = Ok l ->
  (l = [] <-> (to_us t0 / 1000) mod ms_step stq <> 0).
Proof.
  intros M0 Et1 H.
  assert (M1 : ms_resolution t1) by (unfold ms_resolution in *; rewrite Et1; lia).
  pose proof (qtrunc_to_ms t0 M0) as Ea. pose proof (qtrunc_to_ms t1 M1) as Eb.
  unfold ms_range in H. cbv zeta in H. fold (ms_step stq) in H.
  set (s := ms_step stq) in *. assert (Hs : 0 < s) by (subst s; unfold ms_step; lia).
  set (a := qtrunc (to_ms t0)) in *. set (b := qtrunc (to_ms t1)) in *.
  assert (Hb : b = a + 1) by lia.
  assert (Hdiv : to_us t0 / 1000 = a) by lia. rewrite Hdiv.
  pose proof (ceil_mult a s Hs) as Hc. pose proof (ceil_mult_exact a s Hs) as Hx.
  set (first := - (- a / s) * s) in *.
  destruct (Z.to_nat ((b - first) / s + 1)) as [|f] eqn:EF; cbn [ms_loop] in H;
    destruct (first <? b) eqn:C.
  - discriminate.
  - injection H as <-. split; [intros _|reflexivity]. intros G. apply Hx in G. lia.
  - apply rbind_ok in H. destruct H as (t & _ & H).
    apply rbind_ok in H. destruct H as (rest & _ & H). injection H as <-.
    split; [discriminate|]. intros G. exfalso. apply G. apply Hx. lia.
  - injection H as <-. split; [intros _|reflexivity]. intros G. apply Hx in G. lia.
Qed.

Section MsNice.
  Variable stq : Q.
  Local Notation meth := (TMillis stq).
  Local Notation s := (ms_step stq).

  Lemma skipped_ms b v : ms_resolution b -> skipped meth b = Ok v ->
    (v = true <-> (to_us b / 1000) mod s <> 0).
  Proof.
    intros Mb H. unfold skipped in H.
    apply rbind_ok in H. destruct H as (t1 & E1 & H).
    apply rbind_ok in H. destruct H as (l & E2 & H). injection H as <-.
    apply of_us_chk_ok in E1. destruct E1 as [V1 Et1]. cbn [ni_range] in E2.
    rewrite <- (ms_range_window b t1 stq l Mb Et1 E2).
    destruct l; split; congruence.
  Qed.

  Lemma nice_floor_loop_ms fuel : forall nd r, ms_resolution nd ->
    nice_floor_loop fuel meth nd = Ok r ->
    (r = nd \/ valid r) /\ ms_resolution r /\ to_us r <= to_us nd /\ (to_us r / 1000) mod s = 0.
  Proof.
    induction fuel as [|fuel IH]; intros nd r Mn H; cbn [nice_floor_loop] in H;
      apply rbind_ok in H; destruct H as (v & Ev & H);
      apply (skipped_ms nd v Mn) in Ev; destruct v.
    - discriminate.
    - injection H as <-. split; [left; reflexivity|]. split; [exact Mn|]. split; [lia|].
      destruct (Z.eq_dec ((to_us nd / 1000) mod s) 0) as [E|E]; [exact E|].
      apply Ev in E. discriminate.
    - apply rbind_ok in H. destruct H as (d & E1 & H). cbn [ni_floor rbind] in H.
      apply of_us_chk_ok in E1. destruct E1 as [Vd Ed].
      assert (Md : ms_resolution d) by (unfold ms_resolution in *; rewrite Ed; lia).
      destruct (IH d r Md H) as (Vr & Mr & Hr & Dr).
      split; [right; destruct Vr as [->|Vr]; assumption|]. split; [exact Mr|]. split; [lia|exact Dr].
    - injection H as <-. split; [left; reflexivity|]. split; [exact Mn|]. split; [lia|].
      destruct (Z.eq_dec ((to_us nd / 1000) mod s) 0) as [E|E]; [exact E|].
      apply Ev in E. discriminate.
  Qed.

  Lemma nice_ceil_loop_ms fuel : forall nd r, ms_resolution nd ->
    nice_ceil_loop fuel meth nd = Ok r ->
    (r = nd \/ valid r) /\ ms_resolution r /\ to_us nd <= to_us r /\ (to_us r / 1000) mod s = 0.
  Proof.
    induction fuel as [|fuel IH]; intros nd r Mn H; cbn [nice_ceil_loop] in H;
      apply rbind_ok in H; destruct H as (v & Ev & H);
      apply (skipped_ms nd v Mn) in Ev; destruct v.
    - discriminate.
    - injection H as <-. split; [left; reflexivity|]. split; [exact Mn|]. split; [lia|].
      destruct (Z.eq_dec ((to_us nd / 1000) mod s) 0) as [E|E]; [exact E|].
      apply Ev in E. discriminate.
    - apply rbind_ok in H. destruct H as (d & E1 & H). cbn [ni_ceil rbind] in H.
      apply of_us_chk_ok in E1. destruct E1 as [Vd Ed].
      assert (Md : ms_resolution d) by (unfold ms_resolution in *; rewrite Ed; lia).
      destruct (IH d r Md H) as (Vr & Mr & Hr & Dr).
      split; [right; destruct Vr as [->|Vr]; assumption|]. split; [exact Mr|]. split; [lia|exact Dr].
    - injection H as <-. split; [left; reflexivity|]. split; [exact Mn|]. split; [lia|].
      destruct (Z.eq_dec ((to_us nd / 1000) mod s) 0) as [E|E]; [exact E|].
      apply Ev in E. discriminate.
  Qed.

  Lemma ms_aligned r : ms_resolution r -> (to_us r / 1000) mod s = 0 -> aligned meth r.
  Proof.
    intros Mr Dr. split; [exact Mr|]. intros G. unfold ms_step in Dr.
    replace (Z.max 1 (qtrunc stq)) with (qtrunc stq) in Dr by lia. exact Dr.
  Qed.

  Theorem nice_floor_ms t r : valid t -> ms_resolution t -> nice_floor meth t = Ok r ->
    valid r /\ to_us r <= to_us t /\ aligned meth r.
  Proof.
    intros Vt Mt H. unfold nice_floor in H. cbn [ni_skip ni_floor rbind] in H.
    destruct (Qle_bool stq 1) eqn:C.
    - injection H as <-. split; [exact Vt|]. split; [lia|]. split; [exact Mt|].
      intros G. pose proof (qtrunc_le stq C). lia.
    - destruct (nice_floor_loop_ms _ t r Mt H) as (Vr & Mr & Hr & Dr).
      split; [destruct Vr as [->|Vr]; assumption|]. split; [exact Hr|]. apply ms_aligned; assumption.
  Qed.

  Theorem nice_ceil_ms t r : valid t -> ms_resolution t -> nice_ceil meth t = Ok r ->
    valid r /\ to_us t <= to_us r /\ aligned meth r.
  Proof.
    intros Vt Mt H. unfold nice_ceil in H. cbn [ni_skip ni_ceil rbind] in H.
    destruct (Qle_bool stq 1) eqn:C.
    - injection H as <-. split; [exact Vt|]. split; [lia|]. split; [exact Mt|].
      intros G. pose proof (qtrunc_le stq C). lia.
    - destruct (nice_ceil_loop_ms _ t r Mt H) as (Vr & Mr & Hr & Dr).
      split; [destruct Vr as [->|Vr]; assumption|]. split; [exact Hr|]. apply ms_aligned; assumption.
  Qed.
End MsNice.

(* ---------- nice -------------------------------------------------------------------- *)
Lemma nice_floor_any meth t r : valid t -> ms_resolution t -> nice_floor meth t = Ok r ->
  valid r /\ to_us r <= to_us t /\ aligned meth r.
Proof.
  intros Vt Mt H. destruct meth as [stq|u sk].
  - exact (nice_floor_ms stq t r Vt Mt H).
  - exact (nice_floor_unit u sk t r Vt H).
Qed.

Lemma nice_ceil_any meth t r : valid t -> ms_resolution t -> nice_ceil meth t = Ok r ->
  valid r /\ to_us t <= to_us r /\ aligned meth r.
Proof.
  intros Vt Mt H. destruct meth as [stq|u sk].
  - exact (nice_ceil_ms stq t r Vt Mt H).
  - exact (nice_ceil_unit u sk t r Vt Mt H).
Qed.

(* tnice_outward, tnice_aligned *)
Theorem ts_nice_spec d0 d1 m n0 n1 :
  valid d0 -> valid d1 -> ms_resolution d0 -> ms_resolution d1 ->
  ts_nice d0 d1 m = Ok (n0, n1) ->
  exists meth, tick_method_of (to_ms (dom_lo d0 d1)) (to_ms (dom_hi d0 d1)) m = Ok meth /\
    valid n0 /\ valid n1 /\ aligned meth n0 /\ aligned meth n1 /\
    (if to_us d1 <? to_us d0
     then to_us n1 <= to_us d1 /\ to_us d0 <= to_us n0
     else to_us n0 <= to_us d0 /\ to_us d1 <= to_us n1).
Proof.
  intros V0 V1 M0 M1 H. unfold ts_nice in H.
  destruct (tick_method_of (to_ms (dom_lo d0 d1)) (to_ms (dom_hi d0 d1)) m) as [meth| |] eqn:EM;
    try discriminate.
  exists meth. split; [reflexivity|]. unfold dt_ltb in H.
  destruct (to_us d1 <? to_us d0) eqn:C.
  - apply rbind_ok in H. destruct H as (a & E1 & H).
    apply rbind_ok in H. destruct H as (b & E2 & H). injection H as <- <-.
    destruct (nice_floor_any meth d1 a V1 M1 E1) as (Va & La & Aa).
    destruct (nice_ceil_any meth d0 b V0 M0 E2) as (Vb & Lb & Ab).
    repeat split; assumption.
  - apply rbind_ok in H. destruct H as (a & E1 & H).
    apply rbind_ok in H. destruct H as (b & E2 & H). injection H as <- <-.
    destruct (nice_floor_any meth d0 a V0 M0 E1) as (Va & La & Aa).
    destruct (nice_ceil_any meth d1 b V1 M1 E2) as (Vb & Lb & Ab).
    repeat split; assumption.
Qed.

(* tnice_orientation *)
Theorem ts_nice_orientation d0 d1 m n0 n1 :
  valid d0 -> valid d1 -> ms_resolution d0 -> ms_resolution d1 ->
  ts_nice d0 d1 m = Ok (n0, n1) ->
  (to_us d0 < to_us d1 -> to_us n0 < to_us n1) /\
  (to_us d1 < to_us d0 -> to_us n1 < to_us n0) /\
  (to_us d0 = to_us d1 -> to_us n0 <= to_us n1).
Proof.
  intros V0 V1 M0 M1 H.
  destruct (ts_nice_spec d0 d1 m n0 n1 V0 V1 M0 M1 H) as (meth & _ & _ & _ & _ & _ & O).
  destruct (to_us d1 <? to_us d0) eqn:C; lia.
Qed.

(* ====================== the skip loops never run out of fuel ====================== *)
Lemma mod_pred n s : 0 < s -> n mod s <> 0 -> (n - 1) mod s = n mod s - 1.
Proof.
  intros Hs Hn. pose proof (Z.div_mod n s ltac:(lia)). pose proof (Z.mod_pos_bound n s Hs).
  symmetry. apply Z.mod_unique with (q := n / s); lia.
Qed.

Lemma mod_succ n s : 0 < s -> n mod s <> s - 1 -> (n + 1) mod s = n mod s + 1.
Proof.
  intros Hs Hn. pose proof (Z.div_mod n s ltac:(lia)). pose proof (Z.mod_pos_bound n s Hs).
  symmetry. apply Z.mod_unique with (q := n / s); lia.
Qed.

Lemma mod_succ_wrap n s : 0 < s -> n mod s = s - 1 -> (n + 1) mod s = 0.
Proof.
  intros Hs Hn. pose proof (Z.div_mod n s ltac:(lia)).
  symmetry. apply Z.mod_unique with (q := n / s + 1); lia.
Qed.

(* distance to the next multiple of s *)
Definition to_next (n s : Z) : Z := if n mod s =? 0 then 0 else s - n mod s.

Lemma to_next_succ n s : 0 < s -> n mod s <> 0 -> to_next (n + 1) s = to_next n s - 1.
Proof.
  intros Hs Hn. unfold to_next. pose proof (Z.mod_pos_bound n s Hs).
  destruct (Z.eq_dec (n mod s) (s - 1)) as [E|E].
  - rewrite (mod_succ_wrap n s Hs E). cbn. destruct (n mod s =? 0) eqn:C; lia.
  - rewrite (mod_succ n s Hs E). destruct (n mod s + 1 =? 0) eqn:C1; destruct (n mod s =? 0) eqn:C2; lia.
Qed.

(* ---------- unit numbers along consecutive boundaries ---------------------------- *)
Lemma day_succ x x' : valid x -> valid x' -> to_us x mod 86400000000 = 0 ->
  to_us x' = to_us x + 86400000000 -> dt_d x' = dt_d x + 1 \/ dt_d x' = 1.
Proof.
  intros V V' M E.
  destruct (to_us_day_split x (valid_wf x V)) as [_ D1]. cbv zeta in D1.
  destruct (to_us_day_split x' (valid_wf x' V')) as [_ D2]. cbv zeta in D2.
  pose proof (valid_wf x V) as W. apply wf_unfold in W. destruct W as (Mx & _).
  pose proof (valid_wf x' V') as W'. apply wf_unfold in W'. destruct W' as (Mx' & _).
  assert (Hk : days_from_civil (dt_y x') (dt_mo x') (dt_d x') =
               days_from_civil (dt_y x) (dt_mo x) (dt_d x) + 1) by lia.
  destruct (Z.eq_dec (dt_d x') 1) as [E1|N1]; [right; exact E1|left].
  assert (Mp : md_ok (dt_y x') (dt_mo x') (dt_d x' - 1)) by (unfold md_ok in *; lia).
  assert (Hp : days_from_civil (dt_y x') (dt_mo x') (dt_d x' - 1) =
               days_from_civil (dt_y x) (dt_mo x) (dt_d x)).
  { rewrite (days_from_civil_day (dt_y x') (dt_mo x') (dt_d x' - 1)).
    rewrite (days_from_civil_day (dt_y x') (dt_mo x') (dt_d x')) in Hk. lia. }
  destruct (days_from_civil_inj _ _ _ _ _ _ Mp Mx Hp) as (_ & _ & Ed). lia.
Qed.

Lemma next_mult x x' len : 0 < len -> x mod len = 0 ->
  next_boundary (fun z => z mod len = 0) x x' -> x' = x + len.
Proof.
  intros Hl Hx (Px' & Hlt & Hmin).
  assert (Pc : (x + len) mod len = 0).
  { rewrite <- Z.add_mod_idemp_l by lia. rewrite Hx. cbn. apply Z.mod_same. lia. }
  pose proof (Hmin (x + len) Pc ltac:(lia)) as Hle.
  pose proof (Z.div_mod x len ltac:(lia)) as E1. pose proof (Z.div_mod x' len ltac:(lia)) as E2.
  rewrite Hx in E1. rewrite Px' in E2.
  assert (x / len < x' / len) by nia. nia.
Qed.

Lemma number_succ u x x' : u <> UWeek -> valid x -> valid x' ->
  is_boundary u (to_us x) -> next_boundary (is_boundary u) (to_us x) (to_us x') ->
  iv_number (interval_of u) x' = iv_number (interval_of u) x + 1 \/
  iv_number (interval_of u) x' = 0.
Proof.
  intros Hu V V' Px Hn.
  destruct (clock_fields x (valid_wf x V)) as (S1 & S2 & S3).
  destruct (clock_fields x' (valid_wf x' V')) as (S1' & S2' & S3').
  destruct u; try congruence; cbn [interval_of iv_number iv_second iv_minute iv_hour iv_day iv_month iv_year].
  - pose proof (next_mult _ _ 1000000 ltac:(lia) Px Hn) as E. cbn [is_boundary] in Px. lia.
  - pose proof (next_mult _ _ 60000000 ltac:(lia) Px Hn) as E. cbn [is_boundary] in Px. lia.
  - pose proof (next_mult _ _ 3600000000 ltac:(lia) Px Hn) as E. cbn [is_boundary] in Px. lia.
  - pose proof (next_mult _ _ 86400000000 ltac:(lia) Px Hn) as E. cbn [is_boundary] in Px.
    destruct (day_succ x x' V V' Px E); lia.
  - destruct Hn as (Px' & Hlt & Hmin). cbn [is_boundary] in Px, Px', Hmin.
    destruct Px as (y & m & Hm & Ex). destruct Px' as (y' & m' & Hm' & Ex').
    assert (x = first_day y m) as -> by (apply to_us_inj; [apply valid_wf; exact V|apply first_day_wf; exact Hm|exact Ex]).
    assert (x' = first_day y' m') as -> by (apply to_us_inj; [apply valid_wf; exact V'|apply first_day_wf; exact Hm'|exact Ex']).
    unfold first_day. cbn [dt_mo].
    rewrite (to_us_first_day y m Hm), (to_us_first_day y' m' Hm') in Hlt.
    set (i := 12 * y + m - 1) in *. set (i' := 12 * y' + m' - 1) in *.
    assert (Hi : i < i') by (apply first_of_month_lt_inv; lia).
    assert (Hc : to_us (first_day y' m') <= to_us (first_day ((i + 1) / 12) ((i + 1) mod 12 + 1))).
    { apply Hmin.
      - exists ((i + 1) / 12), ((i + 1) mod 12 + 1). split; [lia|reflexivity].
      - rewrite first_day_of_index, (to_us_first_day y m Hm). fold i.
        pose proof (first_of_month_lt i (i + 1) ltac:(lia)). lia. }
    rewrite first_day_of_index, (to_us_first_day y' m' Hm') in Hc. fold i' in Hc.
    assert (i' <= i + 1).
    { destruct (Z_le_gt_dec i' (i + 1)) as [G|G]; [exact G|].
      pose proof (first_of_month_lt (i + 1) i' ltac:(lia)). lia. }
    subst i i'. lia.
  - destruct Hn as (Px' & Hlt & Hmin). cbn [is_boundary] in Px, Px', Hmin.
    destruct Px as (y & Ex). destruct Px' as (y' & Ex').
    assert (x = first_day y 1) as -> by (apply to_us_inj; [apply valid_wf; exact V|apply first_day_wf; lia|exact Ex]).
    assert (x' = first_day y' 1) as -> by (apply to_us_inj; [apply valid_wf; exact V'|apply first_day_wf; lia|exact Ex']).
    unfold first_day. cbn [dt_y]. left.
    rewrite !to_us_jan1 in Hlt.
    assert (Hi : 12 * y < 12 * y') by (apply first_of_month_lt_inv; lia).
    assert (Hc : to_us (first_day y' 1) <= to_us (first_day (y + 1) 1)).
    { apply Hmin; [exists (y + 1); reflexivity|]. rewrite !to_us_jan1.
      pose proof (first_of_month_lt (12 * y) (12 * (y + 1)) ltac:(lia)). lia. }
    rewrite !to_us_jan1 in Hc.
    assert (12 * y' <= 12 * (y + 1)).
    { destruct (Z_le_gt_dec (12 * y') (12 * (y + 1))) as [G|G]; [exact G|].
      pose proof (first_of_month_lt (12 * (y + 1)) (12 * y') ltac:(lia)). lia. }
    lia.
Qed.

Lemma number_nonneg u x : u <> UWeek -> valid x -> 0 <= iv_number (interval_of u) x.
Proof.
  intros Hu V. apply valid_unfold in V. destruct V as [Hy W]. apply wf_unfold in W.
  unfold md_ok in W. destruct u; try congruence; cbn; lia.
Qed.

(* ---------- nothing below a loop runs out of fuel ---------------------------------- *)
Lemma floor_nofuel u t : valid t -> iv_floor (interval_of u) t <> NoFuel.
Proof. exact (uo_local_nofuel _ _ (all_units_ok u) t). Qed.

Lemma ceil_nofuel u t : valid t -> iv_ceil (interval_of u) t <> NoFuel.
Proof.
  intros V H. unfold iv_ceil in H. apply rbind_nofuel in H. destruct H as [H|(t' & Et' & H)].
  - exact (of_us_chk_nofuel _ H).
  - apply of_us_chk_ok in Et'. destruct Et' as [Hv' _].
    apply rbind_nofuel in H. destruct H as [H|(f & Ef & H)].
    + exact (uo_local_nofuel _ _ (all_units_ok u) t' Hv' H).
    + destruct (uo_local _ _ (all_units_ok u) t' f Hv' Ef) as [Hvf _].
      exact (uo_step_nofuel _ _ (all_units_ok u) f 1 Hvf H).
Qed.

Lemma ms_loop_nofuel fuel : forall cur stop st, 0 < st ->
  stop - cur <= st * Z.of_nat fuel -> ms_loop fuel cur stop st <> NoFuel.
Proof.
  induction fuel as [|fuel IH]; intros cur stop st Hst Hf; cbn [ms_loop];
    destruct (cur <? stop) eqn:C; try discriminate.
  - lia.
  - intros H. apply rbind_nofuel in H. destruct H as [H|(t & _ & H)].
    + exact (of_us_chk_nofuel _ H).
    + apply rbind_nofuel in H. destruct H as [H|(rest & _ & H)]; [|discriminate].
      revert H. apply IH; [exact Hst|].
      replace (st * Z.of_nat (S fuel)) with (st * Z.of_nat fuel + st) in Hf by lia. lia.
Qed.

Lemma ms_range_nofuel t0 t1 stq : ms_range t0 t1 stq <> NoFuel.
Proof.
  unfold ms_range. cbv zeta. set (st := Z.max 1 (qtrunc stq)).
  assert (Hst : 0 < st) by (subst st; lia).
  set (first := - (- qtrunc (to_ms t0) / st) * st). set (b := qtrunc (to_ms t1)).
  apply ms_loop_nofuel; [exact Hst|].
  pose proof (Z.div_mod (b - first) st ltac:(lia)).
  pose proof (Z.mod_pos_bound (b - first) st Hst).
  destruct (Z_le_gt_dec 0 ((b - first) / st + 1)) as [G|G].
  - replace (Z.of_nat (Z.to_nat ((b - first) / st + 1))) with ((b - first) / st + 1) by lia. nia.
  - replace (Z.of_nat (Z.to_nat ((b - first) / st + 1))) with 0 by lia. nia.
Qed.

Lemma skipped_nofuel meth b : valid b -> skipped meth b <> NoFuel.
Proof.
  intros V H. unfold skipped in H. apply rbind_nofuel in H. destruct H as [H|(t1 & E1 & H)].
  - exact (of_us_chk_nofuel _ H).
  - apply rbind_nofuel in H. destruct H as [H|(l & _ & H)]; [|discriminate].
    destruct meth as [stq|u sk]; cbn [ni_range] in H.
    + exact (ms_range_nofuel _ _ _ H).
    + exact (g_range_fuel_enough _ _ (all_units_ok u) b t1 (skip_of sk) V H).
Qed.

(* the boundary reached by one floor step / ceil step is the neighbouring one *)
Lemma floor_step_prev u nd d nd' : valid nd -> is_boundary u (to_us nd) ->
  valid d -> to_us d = to_us nd - 1000 -> iv_floor (interval_of u) d = Ok nd' ->
  valid nd' /\ is_boundary u (to_us nd') /\ next_boundary (is_boundary u) (to_us nd') (to_us nd).
Proof.
  intros Vn Pn Vd Ed H.
  destruct (g_floor _ _ (all_units_ok u) d nd' Vd H) as (Vn' & Hle & Pn' & Hmax).
  split; [exact Vn'|]. split; [exact Pn'|]. split; [exact Pn|]. split; [lia|].
  intros x Px Hx. destruct (Z_le_gt_dec (to_us nd) x) as [G|G]; [exact G|exfalso].
  pose proof (boundary_ms u _ Px). pose proof (boundary_ms u _ Pn).
  pose proof (Hmax x Px ltac:(lia)). lia.
Qed.

Lemma ceil_step_next u nd d nd' : valid nd -> is_boundary u (to_us nd) ->
  valid d -> to_us d = to_us nd + 1000 -> iv_ceil (interval_of u) d = Ok nd' ->
  valid nd' /\ is_boundary u (to_us nd') /\ next_boundary (is_boundary u) (to_us nd) (to_us nd').
Proof.
  intros Vn Pn Vd Ed H.
  pose proof (boundary_ms u _ Pn) as Mn.
  assert (Md : ms_resolution d) by (unfold ms_resolution; rewrite Ed; lia).
  destruct (g_ceil _ _ (all_units_ok u) d nd' Vd Md H) as (Vn' & Hle & Pn' & Hmin).
  split; [exact Vn'|]. split; [exact Pn'|]. split; [exact Pn'|]. split; [lia|].
  intros x Px Hx. pose proof (boundary_ms u _ Px). apply Hmin; [exact Px|lia].
Qed.

Section UnitFuel.
  Variable u : unit_id.
  Variable sk : Q.
  Hypothesis not_week : u <> UWeek.
  Local Notation iv := (interval_of u).
  Local Notation P := (is_boundary u).
  Local Notation meth := (TUnit u sk).
  Local Notation st := (skip_of sk).

  Lemma not_keep nd : keep iv nd st = false -> 1 < st /\ iv_number iv nd mod st <> 0.
  Proof.
    unfold keep. destruct (st >? 1) eqn:C; [|discriminate]. intros H. split; [lia|].
    intros E. rewrite E in H. discriminate.
  Qed.

  Lemma floor_loop_fuel_unit fuel : forall nd, valid nd -> P (to_us nd) ->
    iv_number iv nd mod st < Z.of_nat fuel -> nice_floor_loop fuel meth nd <> NoFuel.
  Proof.
    induction fuel as [|fuel IH]; intros nd Vn Pn Hm H; cbn [nice_floor_loop] in H;
      apply rbind_nofuel in H; destruct H as [H|(v & Ev & H)];
      try (exact (skipped_nofuel meth nd Vn H));
      apply (skipped_unit u sk nd v Vn Pn) in Ev; destruct (keep iv nd st) eqn:K; subst v;
      cbn [negb] in H; try discriminate;
      destruct (not_keep nd K) as [Hst Hnz].
    - pose proof (Z.mod_pos_bound (iv_number iv nd) st ltac:(lia)). lia.
    - apply rbind_nofuel in H. destruct H as [H|(d & E1 & H)]; [exact (of_us_chk_nofuel _ H)|].
      apply of_us_chk_ok in E1. destruct E1 as [Vd Ed].
      apply rbind_nofuel in H. destruct H as [H|(nd' & E2 & H)]; [exact (floor_nofuel u d Vd H)|].
      cbn [ni_floor] in E2.
      destruct (floor_step_prev u nd d nd' Vn Pn Vd Ed E2) as (Vn' & Pn' & Hnb).
      revert H. apply IH; [exact Vn'|exact Pn'|].
      pose proof (number_nonneg u nd' not_week Vn') as N0.
      destruct (number_succ u nd' nd not_week Vn' Vn Pn' Hnb) as [E|E].
      + rewrite E in Hm, Hnz.
        replace (iv_number iv nd') with (iv_number iv nd' + 1 - 1) by lia.
        rewrite mod_pred by lia. lia.
      + rewrite E in Hnz. rewrite Z.mod_0_l in Hnz by lia. congruence.
  Qed.

  Lemma ceil_loop_fuel_unit fuel : forall nd, valid nd -> P (to_us nd) ->
    to_next (iv_number iv nd) st < Z.of_nat fuel -> nice_ceil_loop fuel meth nd <> NoFuel.
  Proof.
    induction fuel as [|fuel IH]; intros nd Vn Pn Hm H; cbn [nice_ceil_loop] in H;
      apply rbind_nofuel in H; destruct H as [H|(v & Ev & H)];
      try (exact (skipped_nofuel meth nd Vn H));
      apply (skipped_unit u sk nd v Vn Pn) in Ev; destruct (keep iv nd st) eqn:K; subst v;
      cbn [negb] in H; try discriminate;
      destruct (not_keep nd K) as [Hst Hnz];
      pose proof (Z.mod_pos_bound (iv_number iv nd) st ltac:(lia)) as Hb.
    - unfold to_next in Hm. destruct (iv_number iv nd mod st =? 0) eqn:C; lia.
    - apply rbind_nofuel in H. destruct H as [H|(d & E1 & H)]; [exact (of_us_chk_nofuel _ H)|].
      apply of_us_chk_ok in E1. destruct E1 as [Vd Ed].
      apply rbind_nofuel in H. destruct H as [H|(nd' & E2 & H)]; [exact (ceil_nofuel u d Vd H)|].
      cbn [ni_ceil] in E2.
      destruct (ceil_step_next u nd d nd' Vn Pn Vd Ed E2) as (Vn' & Pn' & Hnb).
      revert H. apply IH; [exact Vn'|exact Pn'|].
      destruct (number_succ u nd nd' not_week Vn Vn' Pn Hnb) as [E|E]; rewrite E.
      + rewrite to_next_succ by lia. lia.
      + unfold to_next in *. rewrite Z.mod_0_l by lia. cbn.
        destruct (iv_number iv nd mod st =? 0) eqn:C; lia.
  Qed.

  Lemma skip_fuel_bound : Qle_bool sk 1 = false -> 1 <= st < Z.of_nat (nice_fuel meth).
  Proof.
    intros C. unfold nice_fuel. cbn [ni_skip].
    assert (L : (1 < sk)%Q).
    { destruct (Qlt_le_dec 1 sk) as [L|L]; [exact L|]. apply Qle_bool_iff in L. congruence. }
    assert (C1 : Qle_bool 1 sk = true) by (apply Qle_bool_iff, Qlt_le_weak, L).
    unfold skip_of. rewrite C1.
    assert (G1 : 1 <= Qfloor sk).
    { pose proof (Qfloor_resp_le 1 sk (Qlt_le_weak _ _ L)) as G. change (Qfloor 1) with 1 in G. exact G. }
    assert (G2 : Qfloor sk <= Qceiling sk).
    { rewrite Zle_Qle. apply Qle_trans with sk; [apply Qfloor_le|apply Qle_ceiling]. }
    lia.
  Qed.
End UnitFuel.

Section MsFuel.
  Variable stq : Q.
  Local Notation meth := (TMillis stq).
  Local Notation s := (ms_step stq).

  Lemma ms_step_pos : 0 < s.
  Proof. unfold ms_step. lia. Qed.

  Lemma floor_loop_fuel_ms fuel : forall nd, valid nd -> ms_resolution nd ->
    (to_us nd / 1000) mod s < Z.of_nat fuel -> nice_floor_loop fuel meth nd <> NoFuel.
  Proof.
    pose proof ms_step_pos as Hs.
    induction fuel as [|fuel IH]; intros nd Vn Mn Hm H; cbn [nice_floor_loop] in H;
      apply rbind_nofuel in H; destruct H as [H|(v & Ev & H)];
      try (exact (skipped_nofuel meth nd Vn H));
      apply (skipped_ms stq nd v Mn) in Ev; destruct v; try discriminate;
      assert (Hnz : (to_us nd / 1000) mod s <> 0) by (apply Ev; reflexivity).
    - pose proof (Z.mod_pos_bound (to_us nd / 1000) s Hs). lia.
    - apply rbind_nofuel in H. destruct H as [H|(d & E1 & H)]; [exact (of_us_chk_nofuel _ H)|].
      apply of_us_chk_ok in E1. destruct E1 as [Vd Ed]. cbn [ni_floor rbind] in H.
      assert (Md : ms_resolution d) by (unfold ms_resolution in *; rewrite Ed; lia).
      revert H. apply IH; [exact Vd|exact Md|].
      unfold ms_resolution in Mn.
      replace (to_us d / 1000) with (to_us nd / 1000 - 1) by lia.
      rewrite mod_pred by assumption. lia.
  Qed.

  Lemma ceil_loop_fuel_ms fuel : forall nd, valid nd -> ms_resolution nd ->
    to_next (to_us nd / 1000) s < Z.of_nat fuel -> nice_ceil_loop fuel meth nd <> NoFuel.
  Proof.
    pose proof ms_step_pos as Hs.
    induction fuel as [|fuel IH]; intros nd Vn Mn Hm H; cbn [nice_ceil_loop] in H;
      apply rbind_nofuel in H; destruct H as [H|(v & Ev & H)];
      try (exact (skipped_nofuel meth nd Vn H));
      apply (skipped_ms stq nd v Mn) in Ev; destruct v; try discriminate;
      assert (Hnz : (to_us nd / 1000) mod s <> 0) by (apply Ev; reflexivity);
      pose proof (Z.mod_pos_bound (to_us nd / 1000) s Hs) as Hb.
    - unfold to_next in Hm. destruct ((to_us nd / 1000) mod s =? 0) eqn:C; lia.
    - apply rbind_nofuel in H. destruct H as [H|(d & E1 & H)]; [exact (of_us_chk_nofuel _ H)|].
      apply of_us_chk_ok in E1. destruct E1 as [Vd Ed]. cbn [ni_ceil rbind] in H.
      assert (Md : ms_resolution d) by (unfold ms_resolution in *; rewrite Ed; lia).
      revert H. apply IH; [exact Vd|exact Md|].
      unfold ms_resolution in Mn.
      replace (to_us d / 1000) with (to_us nd / 1000 + 1) by lia.
      rewrite to_next_succ by assumption. lia.
  Qed.

  Lemma ms_fuel_bound : Qle_bool stq 1 = false -> s < Z.of_nat (nice_fuel meth).
  Proof.
    intros C. unfold nice_fuel. cbn [ni_skip].
    assert (L : (1 < stq)%Q).
    { destruct (Qlt_le_dec 1 stq) as [L|L]; [exact L|]. apply Qle_bool_iff in L. congruence. }
    assert (G1 : 1 <= Qfloor stq).
    { pose proof (Qfloor_resp_le 1 stq (Qlt_le_weak _ _ L)) as G. change (Qfloor 1) with 1 in G. exact G. }
    assert (G2 : Qfloor stq <= Qceiling stq).
    { rewrite Zle_Qle. apply Qle_trans with stq; [apply Qfloor_le|apply Qle_ceiling]. }
    assert (G3 : qtrunc stq = Qfloor stq).
    { destruct stq as [n d]. unfold qtrunc, Qfloor. cbn [Qnum Qden].
      unfold Qlt in L. cbn [Qnum Qden] in L. apply Z.quot_div_nonneg; lia. }
    unfold ms_step. lia.
  Qed.
End MsFuel.

(* the method table gives the week unit only with skip 1 *)
Definition meth_ok (meth : tick_method) : Prop :=
  match meth with TUnit UWeek sk => Qle_bool sk 1 = true | _ => True end.

Lemma methods_week : forall pick : nat,
  let '(u, k) := nth pick scale_methods (UYear, 1) in u = UWeek -> k = 1.
Proof.
  intros pick. do 19 (destruct pick as [|pick]; [cbn; intros; congruence|]).
  cbn. destruct pick; intros; congruence.
Qed.

Lemma tick_method_ok e0 e1 m meth : tick_method_of e0 e1 m = Ok meth -> meth_ok meth.
Proof.
  unfold tick_method_of. destruct (m <=? 0); [discriminate|]. cbv zeta.
  destruct (Nat.eqb _ (length scale_steps)).
  - destruct (lin_tick_step _ _ m); try discriminate. intros H. injection H as <-. exact I.
  - destruct (Nat.eqb _ 0).
    + destruct (lin_tick_step _ _ m); try discriminate. intros H. injection H as <-. exact I.
    + match goal with |- context [nth ?p scale_methods ?d] =>
        pose proof (methods_week p) as W; destruct (nth p scale_methods d) as [u k] end.
      intros H. injection H as <-. destruct u; try exact I.
      cbn. rewrite (W eq_refl). reflexivity.
Qed.

Lemma tick_method_nofuel e0 e1 m : (e0 <= e1)%Q -> tick_method_of e0 e1 m <> NoFuel.
Proof.
  intros Hle. destruct (Z_le_gt_dec m 0) as [G|G].
  - unfold tick_method_of. destruct (m <=? 0) eqn:C; [discriminate|lia].
  - destruct (tick_method_total e0 e1 m Hle ltac:(lia)) as [meth ->]. discriminate.
Qed.

Lemma nice_floor_nofuel meth t : meth_ok meth -> valid t -> ms_resolution t ->
  nice_floor meth t <> NoFuel.
Proof.
  intros Hok Vt Mt H. unfold nice_floor in H. destruct (Qle_bool (ni_skip meth) 1) eqn:C.
  - destruct meth as [stq|u sk]; cbn [ni_floor] in H; [discriminate|exact (floor_nofuel u t Vt H)].
  - apply rbind_nofuel in H. destruct H as [H|(f & Ef & H)].
    + destruct meth as [stq|u sk]; cbn [ni_floor] in H; [discriminate|exact (floor_nofuel u t Vt H)].
    + destruct meth as [stq|u sk]; cbn [ni_floor ni_skip] in *.
      * injection Ef as <-. revert H. apply floor_loop_fuel_ms; [exact Vt|exact Mt|].
        pose proof (ms_fuel_bound stq C). pose proof (ms_step_pos stq).
        pose proof (Z.mod_pos_bound (to_us t / 1000) (ms_step stq) ltac:(lia)). lia.
      * assert (Hu : u <> UWeek) by (intros ->; cbn in Hok; congruence).
        destruct (g_floor _ _ (all_units_ok u) t f Vt Ef) as (Vf & _ & Pf & _).
        revert H. apply (floor_loop_fuel_unit u sk Hu); [exact Vf|exact Pf|].
        pose proof (skip_fuel_bound u sk C).
        pose proof (Z.mod_pos_bound (iv_number (interval_of u) f) (skip_of sk) ltac:(lia)). lia.
Qed.

Lemma nice_ceil_nofuel meth t : meth_ok meth -> valid t -> ms_resolution t ->
  nice_ceil meth t <> NoFuel.
Proof.
  intros Hok Vt Mt H. unfold nice_ceil in H. destruct (Qle_bool (ni_skip meth) 1) eqn:C.
  - destruct meth as [stq|u sk]; cbn [ni_ceil] in H; [discriminate|exact (ceil_nofuel u t Vt H)].
  - apply rbind_nofuel in H. destruct H as [H|(f & Ef & H)].
    + destruct meth as [stq|u sk]; cbn [ni_ceil] in H; [discriminate|exact (ceil_nofuel u t Vt H)].
    + destruct meth as [stq|u sk]; cbn [ni_ceil ni_skip] in *.
      * injection Ef as <-. revert H. apply ceil_loop_fuel_ms; [exact Vt|exact Mt|].
        pose proof (ms_fuel_bound stq C). pose proof (ms_step_pos stq) as Hs.
        pose proof (Z.mod_pos_bound (to_us t / 1000) (ms_step stq) Hs).
        unfold to_next. destruct ((to_us t / 1000) mod ms_step stq =? 0); lia.
      * assert (Hu : u <> UWeek) by (intros ->; cbn in Hok; congruence).
        destruct (g_ceil _ _ (all_units_ok u) t f Vt Mt Ef) as (Vf & _ & Pf & _).
        revert H. apply (ceil_loop_fuel_unit u sk Hu); [exact Vf|exact Pf|].
        pose proof (skip_fuel_bound u sk C).
        pose proof (Z.mod_pos_bound (iv_number (interval_of u) f) (skip_of sk) ltac:(lia)).
        unfold to_next. destruct (iv_number (interval_of u) f mod skip_of sk =? 0); lia.
Qed.

(* tnice_skip_fuel *)
Theorem ts_nice_fuel_enough d0 d1 m :
  valid d0 -> valid d1 -> ms_resolution d0 -> ms_resolution d1 -> ts_nice d0 d1 m <> NoFuel.
Proof.
  intros V0 V1 M0 M1 H. unfold ts_nice in H.
  destruct (dom_lo_hi d0 d1) as [Hle _].
  assert (Hq : (to_ms (dom_lo d0 d1) <= to_ms (dom_hi d0 d1))%Q).
  { destruct (Z.eq_dec (to_us (dom_lo d0 d1)) (to_us (dom_hi d0 d1))) as [E|NE].
    - apply to_ms_eq in E. rewrite E. apply Qle_refl.
    - apply Qlt_le_weak, to_ms_lt. lia. }
  destruct (tick_method_of (to_ms (dom_lo d0 d1)) (to_ms (dom_hi d0 d1)) m) as [meth| |] eqn:EM.
  - pose proof (tick_method_ok _ _ _ _ EM) as Hok.
    destruct (dt_ltb d1 d0).
    + apply rbind_nofuel in H. destruct H as [H|(a & _ & H)]; [exact (nice_floor_nofuel meth d1 Hok V1 M1 H)|].
      apply rbind_nofuel in H. destruct H as [H|(b & _ & H)]; [exact (nice_ceil_nofuel meth d0 Hok V0 M0 H)|discriminate].
    + apply rbind_nofuel in H. destruct H as [H|(a & _ & H)]; [exact (nice_floor_nofuel meth d0 Hok V0 M0 H)|].
      apply rbind_nofuel in H. destruct H as [H|(b & _ & H)]; [exact (nice_ceil_nofuel meth d1 Hok V1 M1 H)|discriminate].
  - discriminate.
  - exact (tick_method_nofuel _ _ m Hq EM).
Qed.
