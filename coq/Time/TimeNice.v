(* Model of TimeScale.nice (labella/scale.py:422-456) with time_nice_floor /
   time_nice_ceil (:173-186) and d3_scale_nice (:66-84).  Model only.

   nice(m):  extent = sorted domain in epoch ms; method = tickMethod(extent, m)
             (m = 10 when omitted); interval, skip = method
     skipped(date) = not len(interval.range(date, milli2dt(dt2milli(date) + 1), skip))
     skip > 1 :  floor' = time_nice_floor(., skipped, interval), ceil' likewise
     else     :  floor' = interval.floor, ceil' = interval.ceil
     d3_scale_nice(domain, .): the smaller end is floored, the larger end is
     ceiled, each written back to its own position (orientation is kept). *)
From Coq Require Import ZArith QArith Qround List Bool.
From Labella Require Import Time.Calendar Time.Interval Time.TimeScale Time.TimeTicks.
Import ListNotations.
Open Scope Z_scope.

(* the three methods nice uses of an "interval": a calendar unit, or
   d3_time_scaleMilliseconds (floor = ceil = identity, scale.py:213-217) *)
Definition ni_floor (meth : tick_method) (t : dt) : res dt :=
  match meth with TMillis _ => Ok t | TUnit u _ => iv_floor (interval_of u) t end.
Definition ni_ceil (meth : tick_method) (t : dt) : res dt :=
  match meth with TMillis _ => Ok t | TUnit u _ => iv_ceil (interval_of u) t end.
Definition ni_range (meth : tick_method) (t0 t1 : dt) : res (list dt) :=
  match meth with
  | TMillis st => ms_range t0 t1 st
  | TUnit u sk => iv_range (interval_of u) t0 t1 (skip_of sk)
  end.
Definition ni_skip (meth : tick_method) : Q :=
  match meth with TMillis st => st | TUnit _ sk => sk end.

Definition skipped (meth : tick_method) (t : dt) : res bool :=
  rbind (of_us_chk (to_us t + 1000)) (fun t1 =>
  rbind (ni_range meth t t1) (fun l => Ok (match l with [] => true | _ => false end))).

(* newdate = interval.floor(date)
   while skipped(newdate): newdate = interval.floor(milli2dt(dt2milli(newdate) - 1)) *)
Fixpoint nice_floor_loop (fuel : nat) (meth : tick_method) (newdate : dt) : res dt :=
  rbind (skipped meth newdate) (fun b =>
  if b then
    match fuel with
    | O => NoFuel
    | S f =>
        rbind (of_us_chk (to_us newdate - 1000)) (fun d =>
        rbind (ni_floor meth d) (fun nd => nice_floor_loop f meth nd))
    end
  else Ok newdate).

Fixpoint nice_ceil_loop (fuel : nat) (meth : tick_method) (newdate : dt) : res dt :=
  rbind (skipped meth newdate) (fun b =>
  if b then
    match fuel with
    | O => NoFuel
    | S f =>
        rbind (of_us_chk (to_us newdate + 1000)) (fun d =>
        rbind (ni_ceil meth d) (fun nd => nice_ceil_loop f meth nd))
    end
  else Ok newdate).

(* the loops end within `skip` rounds (TimeNiceProofs); fuel = skip + 1 *)
Definition nice_fuel (meth : tick_method) : nat := S (Z.to_nat (Qceiling (ni_skip meth))).

Definition nice_floor (meth : tick_method) (t : dt) : res dt :=
  if Qle_bool (ni_skip meth) 1 then ni_floor meth t
  else rbind (ni_floor meth t) (nice_floor_loop (nice_fuel meth) meth).
Definition nice_ceil (meth : tick_method) (t : dt) : res dt :=
  if Qle_bool (ni_skip meth) 1 then ni_ceil meth t
  else rbind (ni_ceil meth t) (nice_ceil_loop (nice_fuel meth) meth).

(* TimeScale().domain([d0, d1]).nice(m).domain() *)
Definition ts_nice (d0 d1 : dt) (m : Z) : res (dt * dt) :=
  match tick_method_of (to_ms (dom_lo d0 d1)) (to_ms (dom_hi d0 d1)) m with
  | Raise => Raise
  | NoFuel => NoFuel
  | Ok meth =>
      if dt_ltb d1 d0 then
        rbind (nice_floor meth d1) (fun n1 => rbind (nice_ceil meth d0) (fun n0 => Ok (n0, n1)))
      else
        rbind (nice_floor meth d0) (fun n0 => rbind (nice_ceil meth d1) (fun n1 => Ok (n0, n1)))
  end.
