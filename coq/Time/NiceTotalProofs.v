(* Totality of TimeScale.nice (Time/TimeNice.v): inside a window of the
   datetime range, for every tick count m >= 1 and every domain shorter than
   1000 * 365 days, ts_nice returns Ok - it neither raises (no intermediate or
   final instant leaves years 1..9999) nor runs out of fuel - and its two ends
   stay within 1003 * (366 days + 1 ms) of the original ends.  In particular
   this covers every domain with both ends in years 1900..2200 (tnice_total_years).
   The reach is that large only because a yearly skip can be as large as 1000
   (domain span / m below 1000 years); the loops move one unit per round. *)
From Coq Require Import ZArith QArith Qround Lia Lqa ZifyBool ZifyN ZifyNat List Bool Sorted.
From Labella Require Import Time.Calendar Time.CalendarProofs Time.Interval Time.IntervalSpec
  Time.IntervalProofs Time.UnitProofs Time.TimeScale Time.TimeScaleProofs Time.TimeTicks
  Time.TimeTicksProofs Time.TimeNice Time.TimeNiceProofs Scale.Ticks Scale.IlogProofs.
Import ListNotations.
Ltac Zify.zify_post_hook ::= Z.to_euclidean_division_equations.
Open Scope Z_scope.

(* one round of a skip loop moves by at most one unit (<= 366 days) plus the
   millisecond that is stepped over *)
Definition STEP : Z := 366 * 86400000000 + 1000.

(* ---------- the skip is at most 1000 --------------------------------------------------- *)
Lemma ilog10_down_le fuel : forall q e r, ilog10_down fuel q e = Some r -> r <= e.
Proof.
  induction fuel as [|fuel IH]; intros q e r H; cbn [ilog10_down] in H;
    destruct (Qle_bool 1 q); try discriminate; try (injection H as <-; lia).
  apply IH in H. lia.
Qed.

Lemma ilog10_up_le fuel : forall q e r, (q < 1000)%Q -> ilog10_up fuel q e = Some r -> r <= e + 2.
Proof.
  intros q e r Hq H.
  destruct fuel as [|f1]; cbn [ilog10_up] in H;
    destruct (Qle_bool 10 q) eqn:C1; try discriminate; try (injection H as <-; lia).
  destruct f1 as [|f2]; cbn [ilog10_up] in H;
    destruct (Qle_bool 10 (q / 10)) eqn:C2; try discriminate; try (injection H as <-; lia).
  destruct f2 as [|f3]; cbn [ilog10_up] in H;
    destruct (Qle_bool 10 (q / 10 / 10)) eqn:C3; try (injection H as <-; lia).
  - exfalso. apply Qle_bool_iff in C3.
    assert (E : (q / 10 / 10 == q * (1 # 100))%Q) by field. rewrite E in C3. lra.
  - exfalso. apply Qle_bool_iff in C3.
    assert (E : (q / 10 / 10 == q * (1 # 100))%Q) by field. rewrite E in C3. lra.
Qed.

Lemma ilog10_le q e : (q < 1000)%Q -> TimeTicks.ilog10 q = Some e -> e <= 2.
Proof.
  intros Hq H. unfold TimeTicks.ilog10 in H. destruct (Qle_bool 1 q).
  - apply (ilog10_up_le _ q 0 e Hq) in H. lia.
  - apply ilog10_down_le in H. lia.
Qed.

Lemma pow10_le_100 e : e <= 2 -> (0 < Qpower 10 e <= 100)%Q.
Proof.
  intros H. split; [apply (pow10_pos e)|].
  pose proof (pow10_le_mono e 2 H) as G. unfold pow10 in G.
  assert (E : (Qpower 10 2 == 100)%Q) by reflexivity. rewrite E in G. exact G.
Qed.

Lemma lin_tick_step_le lo hi m st : (lo <= hi)%Q -> 0 < m ->
  ((hi - lo) / inject_Z m < 1000)%Q -> lin_tick_step lo hi m = Ok st -> (st <= 1000)%Q.
Proof.
  intros Hle Hm Hq H. unfold lin_tick_step in H. cbv zeta in H.
  destruct (Qeq_bool (hi - lo) 0); [injection H as <-; lra|].
  destruct (m <=? 0) eqn:C; [discriminate|].
  destruct (TimeTicks.ilog10 ((hi - lo) / inject_Z m)) as [e|] eqn:E; [|discriminate].
  pose proof (pow10_le_100 e (ilog10_le _ e Hq E)) as [P0 P1].
  injection H as <-.
  destruct (Qle_bool _ (15 # 100)); [lra|].
  destruct (Qle_bool _ (35 # 100)); [lra|].
  destruct (Qle_bool _ (75 # 100)); lra.
Qed.

Lemma methods_small : forall pick : nat, snd (nth pick scale_methods (UYear, 1)) <= 30.
Proof.
  intros pick. do 19 (destruct pick as [|pick]; [cbn; lia|]). cbn. destruct pick; cbn; lia.
Qed.

Lemma bisect_zero x : bisect scale_steps x = O -> (x < 1000)%Q.
Proof.
  cbn [bisect scale_steps]. destruct (Qle_bool (inject_Z 1000) x) eqn:C; [discriminate|].
  intros _. destruct (Qlt_le_dec x 1000) as [L|L]; [exact L|].
  apply Qle_bool_iff in L. change (inject_Z 1000) with 1000%Q in C. congruence.
Qed.

(* span below 1000 * 365 days: every method has skip <= 1000 *)
Theorem skip_le_1000 e0 e1 m meth : (e0 <= e1)%Q -> 0 < m ->
  (e1 - e0 < 1000 * 31536000000)%Q ->
  tick_method_of e0 e1 m = Ok meth -> (ni_skip meth <= 1000)%Q.
Proof.
  intros Hle Hm Hspan H. unfold tick_method_of in H.
  destruct (m <=? 0) eqn:C; [lia|]. cbv zeta in H.
  pose proof (inject_Z_pos m Hm) as Mq.
  assert (M1 : (1 <= inject_Z m)%Q) by (unfold Qle, inject_Z; cbn [Qnum Qden]; lia).
  destruct (Nat.eqb (bisect scale_steps ((e1 - e0) / inject_Z m)) (length scale_steps)).
  - destruct (lin_tick_step _ _ m) as [st| |] eqn:E; try discriminate. injection H as <-.
    cbn [ni_skip]. apply (lin_tick_step_le _ _ m st) in E; [exact E| |exact Hm|].
    + unfold Qdiv. apply Qmult_le_compat_r; [exact Hle|]. unfold Qle. cbn. lia.
    + apply Qlt_shift_div_r; [exact Mq|].
      assert (E2 : (e1 / 31536000000 - e0 / 31536000000 == (e1 - e0) * (1 # 31536000000))%Q) by field.
      rewrite E2. nra.
  - destruct (Nat.eqb (bisect scale_steps ((e1 - e0) / inject_Z m)) 0) eqn:B0.
    + destruct (lin_tick_step _ _ m) as [st| |] eqn:E; try discriminate. injection H as <-.
      cbn [ni_skip]. apply (lin_tick_step_le _ _ m st Hle Hm) in E; [exact E|].
      apply bisect_zero. apply Nat.eqb_eq in B0. exact B0.
    + match type of H with context [nth ?p scale_methods ?d] =>
        pose proof (methods_small p) as W; destruct (nth p scale_methods d) as [u k] end.
      injection H as <-. cbn [ni_skip snd] in *.
      apply Qle_trans with (inject_Z 30); [rewrite <- Zle_Qle; exact W|]. unfold Qle. cbn. lia.
Qed.

Lemma nice_fuel_le meth : (ni_skip meth <= 1000)%Q -> Z.of_nat (nice_fuel meth) <= 1001.
Proof.
  intros H. unfold nice_fuel. pose proof (Qceiling_resp_le _ _ H) as G.
  change (Qceiling 1000) with 1000 in G. lia.
Qed.

(* ---------- consecutive boundaries are at most 366 days apart ------------------------------ *)
Lemma next_gap u x x' : is_boundary u x -> next_boundary (is_boundary u) x x' ->
  x' <= x + YEAR_MAX_US.
Proof.
  intros Px (Px' & Hlt & Hmin).
  apply (uo_P _ _ (all_units_ok u)) in Px. destruct Px as [k ->].
  pose proof (uo_gap _ _ (all_units_ok u) k) as G.
  pose proof (uo_gap_max _ _ (all_units_ok u) k) as GM.
  pose proof (uo_minlen _ _ (all_units_ok u)) as ML.
  assert (Pn : is_boundary u (uo_B _ _ (all_units_ok u) (k + 1))).
  { apply (uo_P _ _ (all_units_ok u)). exists (k + 1). reflexivity. }
  pose proof (Hmin _ Pn ltac:(lia)). lia.
Qed.

Lemma floor_lower u t r : valid t -> iv_floor (interval_of u) t = Ok r ->
  to_us t - YEAR_MAX_US < to_us r.
Proof.
  intros Vt H. unfold iv_floor in H.
  destruct (uo_local _ _ (all_units_ok u) t r Vt H) as [_ (k & Ek & Hlo & Hhi)].
  pose proof (uo_gap_max _ _ (all_units_ok u) k). lia.
Qed.

Lemma ceil_upper u t r : valid t -> iv_ceil (interval_of u) t = Ok r ->
  to_us r <= to_us t - 1000 + YEAR_MAX_US.
Proof.
  intros Vt H. destruct (g_ceil_idx _ _ (all_units_ok u) t r Vt H) as [_ (k & Er & Hlo & Hhi)].
  pose proof (uo_gap_max _ _ (all_units_ok u) k). lia.
Qed.

(* ---------- skipped() is defined ---------------------------------------------------------- *)
Lemma skipped_total_unit u sk b : valid b -> is_boundary u (to_us b) ->
  MIN_US + WEEK_US + 1000 <= to_us b -> to_us b + 1000 + YEAR_MAX_US <= MAX_US ->
  exists v, skipped (TUnit u sk) b = Ok v.
Proof.
  intros Vb Pb Hlo Hhi. unfold skipped.
  pose proof (valid_in_range b Vb) as R. apply in_range_iff in R.
  assert (R1 : in_range (to_us b + 1000) = true) by (apply in_range_iff; unfold YEAR_MAX_US in Hhi; lia).
  rewrite (of_us_chk_in_range _ R1). cbn [rbind ni_range].
  pose proof (of_us_valid _ R1) as V1. pose proof (to_us_of_us (to_us b + 1000)) as E1.
  destruct (g_range_total _ _ (all_units_ok u) b (of_us (to_us b + 1000)) (skip_of sk) Vb V1 Hlo
              ltac:(lia) ltac:(lia)) as [l El].
  rewrite El. cbn [rbind]. eexists; reflexivity.
Qed.

Lemma skipped_total_ms stq b : valid b -> ms_resolution b -> to_us b + 1000 <= MAX_US ->
  exists v, skipped (TMillis stq) b = Ok v.
Proof.
  intros Vb Mb Hhi. unfold skipped.
  pose proof (valid_in_range b Vb) as R. apply in_range_iff in R.
  assert (R1 : in_range (to_us b + 1000) = true) by (apply in_range_iff; lia).
  rewrite (of_us_chk_in_range _ R1). cbn [rbind ni_range].
  pose proof (of_us_valid _ R1) as V1. pose proof (to_us_of_us (to_us b + 1000)) as E1.
  assert (M1 : ms_resolution (of_us (to_us b + 1000))) by (unfold ms_resolution in *; rewrite E1; lia).
  destruct (ms_range_total b _ stq Vb V1 Mb M1) as [l El]. rewrite El. cbn [rbind].
  eexists; reflexivity.
Qed.

(* ---------- the loops of a calendar unit ----------------------------------------------------- *)
Section UnitTotal.
  Variable u : unit_id.
  Variable sk : Q.
  Hypothesis not_week : u <> UWeek.
  Local Notation iv := (interval_of u).
  Local Notation P := (is_boundary u).
  Local Notation meth := (TUnit u sk).
  Local Notation st := (skip_of sk).

  Lemma floor_loop_total_unit fuel : forall nd, valid nd -> P (to_us nd) ->
    iv_number iv nd mod st < Z.of_nat fuel ->
    MIN_US + WEEK_US + 1000 + Z.of_nat fuel * STEP <= to_us nd ->
    to_us nd + 1000 + YEAR_MAX_US <= MAX_US ->
    exists r, nice_floor_loop fuel meth nd = Ok r /\ to_us nd - Z.of_nat fuel * STEP <= to_us r.
  Proof.
    induction fuel as [|fuel IH]; intros nd Vn Pn Hm Hlo Hhi; cbn [nice_floor_loop];
      (destruct (skipped_total_unit u sk nd Vn Pn ltac:(unfold STEP in *; lia) Hhi) as [v Ev]);
      rewrite Ev; cbn [rbind]; pose proof (skipped_unit u sk nd v Vn Pn Ev) as Hv;
      destruct (keep iv nd st) eqn:K; subst v; cbn [negb];
      try (exists nd; split; [reflexivity|unfold STEP; lia]);
      destruct (not_keep u sk nd K) as [Hst Hnz].
    - pose proof (Z.mod_pos_bound (iv_number iv nd) st ltac:(lia)). lia.
    - pose proof (valid_in_range nd Vn) as R. apply in_range_iff in R.
      assert (Rd : in_range (to_us nd - 1000) = true).
      { apply in_range_iff. unfold STEP, WEEK_US in *. lia. }
      rewrite (of_us_chk_in_range _ Rd). cbn [rbind ni_floor].
      pose proof (of_us_valid _ Rd) as Vd. pose proof (to_us_of_us (to_us nd - 1000)) as Ed.
      destruct (g_floor_total _ _ (all_units_ok u) (of_us (to_us nd - 1000)) Vd) as [nd' E2].
      { unfold STEP, WEEK_US in *. lia. }
      rewrite E2. cbn [rbind].
      destruct (floor_step_prev u nd _ nd' Vn Pn Vd Ed E2) as (Vn' & Pn' & Hnb).
      pose proof (next_gap u _ _ Pn' Hnb) as Gp.
      destruct Hnb as (_ & Hlt & _).
      destruct (IH nd' Vn' Pn') as (r & Er & Hr).
      + pose proof (number_nonneg u nd' not_week Vn') as N0.
        destruct (number_succ u nd' nd not_week Vn' Vn Pn' (conj Pn (conj Hlt ltac:(
                    destruct (floor_step_prev u nd _ nd' Vn Pn Vd Ed E2) as (_ & _ & (_ & _ & X)); exact X)))) as [E|E].
        * rewrite E in Hm, Hnz.
          replace (iv_number iv nd') with (iv_number iv nd' + 1 - 1) by lia.
          rewrite mod_pred by lia. lia.
        * rewrite E in Hnz. rewrite Z.mod_0_l in Hnz by lia. congruence.
      + unfold STEP, YEAR_MAX_US in *. lia.
      + lia.
      + exists r. split; [exact Er|]. unfold STEP, YEAR_MAX_US in *. lia.
  Qed.

  Lemma ceil_loop_total_unit fuel : forall nd, valid nd -> P (to_us nd) ->
    to_next (iv_number iv nd) st < Z.of_nat fuel ->
    MIN_US + WEEK_US + 1000 <= to_us nd ->
    to_us nd + 1000 + YEAR_MAX_US + Z.of_nat fuel * STEP <= MAX_US ->
    exists r, nice_ceil_loop fuel meth nd = Ok r /\ to_us r <= to_us nd + Z.of_nat fuel * STEP.
  Proof.
    induction fuel as [|fuel IH]; intros nd Vn Pn Hm Hlo Hhi; cbn [nice_ceil_loop];
      (destruct (skipped_total_unit u sk nd Vn Pn Hlo ltac:(unfold STEP in *; lia)) as [v Ev]);
      rewrite Ev; cbn [rbind]; pose proof (skipped_unit u sk nd v Vn Pn Ev) as Hv;
      destruct (keep iv nd st) eqn:K; subst v; cbn [negb];
      try (exists nd; split; [reflexivity|unfold STEP; lia]);
      destruct (not_keep u sk nd K) as [Hst Hnz];
      pose proof (Z.mod_pos_bound (iv_number iv nd) st ltac:(lia)) as Hb.
    - unfold to_next in Hm. destruct (iv_number iv nd mod st =? 0) eqn:C; lia.
    - pose proof (valid_in_range nd Vn) as R. apply in_range_iff in R.
      assert (Rd : in_range (to_us nd + 1000) = true).
      { apply in_range_iff. unfold STEP, YEAR_MAX_US in *. lia. }
      rewrite (of_us_chk_in_range _ Rd). cbn [rbind ni_ceil].
      pose proof (of_us_valid _ Rd) as Vd. pose proof (to_us_of_us (to_us nd + 1000)) as Ed.
      destruct (g_ceil_total _ _ (all_units_ok u) (of_us (to_us nd + 1000)) Vd) as [nd' E2].
      { lia. }
      { unfold STEP, YEAR_MAX_US in *. lia. }
      rewrite E2. cbn [rbind].
      destruct (ceil_step_next u nd _ nd' Vn Pn Vd Ed E2) as (Vn' & Pn' & Hnb).
      pose proof (next_gap u _ _ Pn Hnb) as Gp.
      pose proof Hnb as (_ & Hlt & _).
      destruct (IH nd' Vn' Pn') as (r & Er & Hr).
      + destruct (number_succ u nd nd' not_week Vn Vn' Pn Hnb) as [E|E]; rewrite E.
        * rewrite to_next_succ by lia. lia.
        * unfold to_next in *. rewrite Z.mod_0_l by lia. cbn.
          destruct (iv_number iv nd mod st =? 0) eqn:C; lia.
      + lia.
      + unfold STEP, YEAR_MAX_US in *. lia.
      + exists r. split; [exact Er|]. unfold STEP, YEAR_MAX_US in *. lia.
  Qed.
End UnitTotal.

(* ---------- the loops of the millisecond method ----------------------------------------------- *)
Section MsTotal.
  Variable stq : Q.
  Local Notation meth := (TMillis stq).
  Local Notation s := (ms_step stq).

  Lemma floor_loop_total_ms fuel : forall nd, valid nd -> ms_resolution nd ->
    (to_us nd / 1000) mod s < Z.of_nat fuel ->
    MIN_US + Z.of_nat fuel * STEP <= to_us nd -> to_us nd + 1000 <= MAX_US ->
    exists r, nice_floor_loop fuel meth nd = Ok r /\ to_us nd - Z.of_nat fuel * STEP <= to_us r.
  Proof.
    pose proof (ms_step_pos stq) as Hs.
    induction fuel as [|fuel IH]; intros nd Vn Mn Hm Hlo Hhi; cbn [nice_floor_loop];
      (destruct (skipped_total_ms stq nd Vn Mn Hhi) as [v Ev]); rewrite Ev; cbn [rbind];
      pose proof (skipped_ms stq nd v Mn Ev) as Hv; destruct v;
      try (exists nd; split; [reflexivity|unfold STEP; lia]);
      assert (Hnz : (to_us nd / 1000) mod s <> 0) by (apply Hv; reflexivity).
    - pose proof (Z.mod_pos_bound (to_us nd / 1000) s Hs). lia.
    - pose proof (valid_in_range nd Vn) as R. apply in_range_iff in R.
      assert (Rd : in_range (to_us nd - 1000) = true) by (apply in_range_iff; unfold STEP in *; lia).
      rewrite (of_us_chk_in_range _ Rd). cbn [rbind ni_floor].
      pose proof (of_us_valid _ Rd) as Vd. pose proof (to_us_of_us (to_us nd - 1000)) as Ed.
      assert (Md : ms_resolution (of_us (to_us nd - 1000))) by (unfold ms_resolution in *; rewrite Ed; lia).
      destruct (IH _ Vd Md) as (r & Er & Hr).
      + unfold ms_resolution in Mn. rewrite Ed.
        replace ((to_us nd - 1000) / 1000) with (to_us nd / 1000 - 1) by lia.
        rewrite mod_pred by assumption. lia.
      + unfold STEP in *. lia.
      + lia.
      + exists r. split; [exact Er|]. unfold STEP in *. lia.
  Qed.

  Lemma ceil_loop_total_ms fuel : forall nd, valid nd -> ms_resolution nd ->
    to_next (to_us nd / 1000) s < Z.of_nat fuel ->
    to_us nd + 1000 + Z.of_nat fuel * STEP <= MAX_US ->
    exists r, nice_ceil_loop fuel meth nd = Ok r /\ to_us r <= to_us nd + Z.of_nat fuel * STEP.
  Proof.
    pose proof (ms_step_pos stq) as Hs.
    induction fuel as [|fuel IH]; intros nd Vn Mn Hm Hhi; cbn [nice_ceil_loop];
      (destruct (skipped_total_ms stq nd Vn Mn ltac:(unfold STEP in *; lia)) as [v Ev]); rewrite Ev; cbn [rbind];
      pose proof (skipped_ms stq nd v Mn Ev) as Hv; destruct v;
      try (exists nd; split; [reflexivity|unfold STEP; lia]);
      assert (Hnz : (to_us nd / 1000) mod s <> 0) by (apply Hv; reflexivity);
      pose proof (Z.mod_pos_bound (to_us nd / 1000) s Hs) as Hb.
    - unfold to_next in Hm. destruct ((to_us nd / 1000) mod s =? 0) eqn:C; lia.
    - pose proof (valid_in_range nd Vn) as R. apply in_range_iff in R.
      assert (Rd : in_range (to_us nd + 1000) = true) by (apply in_range_iff; unfold STEP in *; lia).
      rewrite (of_us_chk_in_range _ Rd). cbn [rbind ni_ceil].
      pose proof (of_us_valid _ Rd) as Vd. pose proof (to_us_of_us (to_us nd + 1000)) as Ed.
      assert (Md : ms_resolution (of_us (to_us nd + 1000))) by (unfold ms_resolution in *; rewrite Ed; lia).
      destruct (IH _ Vd Md) as (r & Er & Hr).
      + unfold ms_resolution in Mn. rewrite Ed.
        replace ((to_us nd + 1000) / 1000) with (to_us nd / 1000 + 1) by lia.
        rewrite to_next_succ by assumption. lia.
      + unfold STEP in *. lia.
      + exists r. split; [exact Er|]. unfold STEP in *. lia.
  Qed.
End MsTotal.

(* ---------- floor' / ceil' of nice ----------------------------------------------------------- *)
Definition REACH : Z := 1003 * STEP.

Lemma nice_floor_total meth t : meth_ok meth -> (ni_skip meth <= 1000)%Q ->
  valid t -> ms_resolution t ->
  MIN_US + REACH <= to_us t -> to_us t + 1000 + YEAR_MAX_US <= MAX_US ->
  exists r, nice_floor meth t = Ok r /\ to_us t - REACH <= to_us r.
Proof.
  intros Hok Hsk Vt Mt Hlo Hhi. pose proof (nice_fuel_le meth Hsk) as HF.
  unfold nice_floor. destruct (Qle_bool (ni_skip meth) 1) eqn:C.
  - destruct meth as [stq|u sk]; cbn [ni_floor].
    + exists t. split; [reflexivity|unfold REACH, STEP; lia].
    + destruct (g_floor_total _ _ (all_units_ok u) t Vt) as [r Er].
      { unfold REACH, STEP, WEEK_US in *. lia. }
      exists r. split; [exact Er|]. pose proof (floor_lower u t r Vt Er).
      unfold REACH, STEP, YEAR_MAX_US in *. lia.
  - destruct meth as [stq|u sk]; cbn [ni_floor ni_skip rbind] in *.
    + destruct (floor_loop_total_ms stq (nice_fuel (TMillis stq)) t Vt Mt) as (r & Er & Hr).
      * pose proof (ms_fuel_bound stq C). pose proof (ms_step_pos stq).
        pose proof (Z.mod_pos_bound (to_us t / 1000) (ms_step stq) ltac:(lia)). lia.
      * unfold REACH, STEP in *. lia.
      * unfold YEAR_MAX_US in *. lia.
      * exists r. split; [exact Er|]. unfold REACH, STEP in *. lia.
    + assert (Hu : u <> UWeek) by (intros ->; cbn in Hok; congruence).
      destruct (g_floor_total _ _ (all_units_ok u) t Vt) as [f Ef].
      { unfold REACH, STEP, WEEK_US in *. lia. }
      rewrite Ef. cbn [rbind].
      destruct (g_floor _ _ (all_units_ok u) t f Vt Ef) as (Vf & Hle & Pf & _).
      pose proof (floor_lower u t f Vt Ef) as Hfl.
      destruct (floor_loop_total_unit u sk Hu (nice_fuel (TUnit u sk)) f Vf Pf) as (r & Er & Hr).
      * pose proof (skip_fuel_bound u sk C).
        pose proof (Z.mod_pos_bound (iv_number (interval_of u) f) (skip_of sk) ltac:(lia)). lia.
      * unfold REACH, STEP, WEEK_US, YEAR_MAX_US in *. lia.
      * lia.
      * exists r. split; [exact Er|]. unfold REACH, STEP, YEAR_MAX_US in *. lia.
Qed.

Lemma nice_ceil_total meth t : meth_ok meth -> (ni_skip meth <= 1000)%Q ->
  valid t -> ms_resolution t ->
  MIN_US + WEEK_US + 2000 <= to_us t -> to_us t + REACH <= MAX_US ->
  exists r, nice_ceil meth t = Ok r /\ to_us r <= to_us t + REACH.
Proof.
  intros Hok Hsk Vt Mt Hlo Hhi. pose proof (nice_fuel_le meth Hsk) as HF.
  unfold nice_ceil. destruct (Qle_bool (ni_skip meth) 1) eqn:C.
  - destruct meth as [stq|u sk]; cbn [ni_ceil].
    + exists t. split; [reflexivity|unfold REACH, STEP; lia].
    + destruct (g_ceil_total _ _ (all_units_ok u) t Vt) as [r Er].
      { lia. }
      { unfold REACH, STEP, YEAR_MAX_US in *. lia. }
      exists r. split; [exact Er|]. pose proof (ceil_upper u t r Vt Er).
      unfold REACH, STEP, YEAR_MAX_US in *. lia.
  - destruct meth as [stq|u sk]; cbn [ni_ceil ni_skip rbind] in *.
    + destruct (ceil_loop_total_ms stq (nice_fuel (TMillis stq)) t Vt Mt) as (r & Er & Hr).
      * pose proof (ms_fuel_bound stq C). pose proof (ms_step_pos stq) as Hs.
        pose proof (Z.mod_pos_bound (to_us t / 1000) (ms_step stq) Hs).
        unfold to_next. destruct ((to_us t / 1000) mod ms_step stq =? 0); lia.
      * unfold REACH, STEP in *. lia.
      * exists r. split; [exact Er|]. unfold REACH, STEP in *. lia.
    + assert (Hu : u <> UWeek) by (intros ->; cbn in Hok; congruence).
      destruct (g_ceil_total _ _ (all_units_ok u) t Vt) as [f Ef].
      { lia. }
      { unfold REACH, STEP, YEAR_MAX_US in *. lia. }
      rewrite Ef. cbn [rbind].
      destruct (g_ceil _ _ (all_units_ok u) t f Vt Mt Ef) as (Vf & Hle & Pf & _).
      pose proof (ceil_upper u t f Vt Ef) as Hcu.
      destruct (ceil_loop_total_unit u sk Hu (nice_fuel (TUnit u sk)) f Vf Pf) as (r & Er & Hr).
      * pose proof (skip_fuel_bound u sk C).
        pose proof (Z.mod_pos_bound (iv_number (interval_of u) f) (skip_of sk) ltac:(lia)).
        unfold to_next. destruct (iv_number (interval_of u) f mod skip_of sk =? 0); lia.
      * lia.
      * unfold REACH, STEP, YEAR_MAX_US in *. lia.
      * exists r. split; [exact Er|]. unfold REACH, STEP, YEAR_MAX_US in *. lia.
Qed.

(* ---------- tnice_total ------------------------------------------------------------------------ *)
(* the window: both domain ends at least REACH + slack away from datetime.min / max *)
Definition in_window (t : dt) : Prop :=
  MIN_US + REACH + STEP <= to_us t /\ to_us t + REACH + 3 * STEP <= MAX_US.
(* shorter than 1000 * 365 days *)
Definition short_span (d0 d1 : dt) : Prop :=
  Z.abs (to_us d1 - to_us d0) < 1000 * 31536000000 * 1000.

Theorem tnice_total d0 d1 m :
  valid d0 -> valid d1 -> ms_resolution d0 -> ms_resolution d1 ->
  in_window d0 -> in_window d1 -> short_span d0 d1 -> 0 < m ->
  exists n0 n1, ts_nice d0 d1 m = Ok (n0, n1) /\
    MIN_US + STEP <= to_us n0 /\ to_us n0 + 3 * STEP <= MAX_US /\
    MIN_US + STEP <= to_us n1 /\ to_us n1 + 3 * STEP <= MAX_US.
Proof.
  intros V0 V1 M0 M1 [W0l W0h] [W1l W1h] Hspan Hm.
  destruct (dom_lo_hi d0 d1) as [Hle Hc].
  assert (Hq : (to_ms (dom_lo d0 d1) <= to_ms (dom_hi d0 d1))%Q).
  { destruct (Z.eq_dec (to_us (dom_lo d0 d1)) (to_us (dom_hi d0 d1))) as [E|NE].
    - apply to_ms_eq in E. rewrite E. apply Qle_refl.
    - apply Qlt_le_weak, to_ms_lt. lia. }
  destruct (tick_method_total _ _ m Hq Hm) as [meth EM].
  pose proof (tick_method_ok _ _ _ _ EM) as Hok.
  assert (Hsk : (ni_skip meth <= 1000)%Q).
  { apply (skip_le_1000 _ _ m meth Hq Hm); [|exact EM].
    rewrite to_ms_diff.
    assert (E : (1000 * 31536000000 == 31536000000000)%Q) by reflexivity. rewrite E.
    unfold Qlt. cbn [Qnum Qden].
    unfold short_span in Hspan. destruct Hc as [[-> ->]|[-> ->]]; lia. }
  unfold ts_nice. rewrite EM. unfold dt_ltb. unfold YEAR_MAX_US, WEEK_US, REACH, STEP in *.
  destruct (to_us d1 <? to_us d0) eqn:C.
  - destruct (nice_floor_total meth d1 Hok Hsk V1 M1) as (a & Ea & Ha);
      [unfold REACH, STEP; lia|unfold YEAR_MAX_US; lia|].
    destruct (nice_ceil_total meth d0 Hok Hsk V0 M0) as (b & Eb & Hb);
      [unfold WEEK_US; lia|unfold REACH, STEP; lia|].
    rewrite Ea, Eb. cbn [rbind]. exists b, a. split; [reflexivity|].
    destruct (nice_floor_any meth d1 a V1 M1 Ea) as (_ & La & _).
    destruct (nice_ceil_any meth d0 b V0 M0 Eb) as (_ & Lb & _).
    unfold REACH, STEP in *. lia.
  - destruct (nice_floor_total meth d0 Hok Hsk V0 M0) as (a & Ea & Ha);
      [unfold REACH, STEP; lia|unfold YEAR_MAX_US; lia|].
    destruct (nice_ceil_total meth d1 Hok Hsk V1 M1) as (b & Eb & Hb);
      [unfold WEEK_US; lia|unfold REACH, STEP; lia|].
    rewrite Ea, Eb. cbn [rbind]. exists a, b. split; [reflexivity|].
    destruct (nice_floor_any meth d0 a V0 M0 Ea) as (_ & La & _).
    destruct (nice_ceil_any meth d1 b V1 M1 Eb) as (_ & Lb & _).
    unfold REACH, STEP in *. lia.
Qed.

(* ---------- years ---------------------------------------------------------------------------- *)
Lemma years_in_window t : valid t -> 1900 <= dt_y t <= 2200 ->
  in_window t /\ -2208988800000000 <= to_us t < 7289654400000000.
Proof.
  intros Vt Hy. pose proof (to_us_year_bounds t (valid_wf t Vt)) as Bd.
  pose proof (first_of_month_le 22800 (12 * dt_y t) ltac:(lia)) as G1.
  pose proof (first_of_month_le (12 * dt_y t + 12) 26412 ltac:(lia)) as G2.
  assert (E1 : first_of_month 22800 = -25567) by reflexivity.
  assert (E2 : first_of_month 26412 = 84371) by reflexivity.
  unfold in_window, REACH, STEP, MIN_US, MAX_US. lia.
Qed.

Lemma window_years t : valid t -> MIN_US + STEP <= to_us t -> to_us t + 3 * STEP <= MAX_US ->
  2 <= dt_y t <= 9997.
Proof.
  intros Vt Hlo Hhi. pose proof (to_us_year_bounds t (valid_wf t Vt)) as Bd.
  assert (E1 : first_of_month 24 = -718797) by reflexivity.
  assert (E2 : first_of_month 119976 = 2932167) by reflexivity.
  split.
  - destruct (Z_le_gt_dec 2 (dt_y t)) as [G|G]; [exact G|exfalso].
    pose proof (first_of_month_le (12 * dt_y t + 12) 24 ltac:(lia)).
    unfold STEP, MIN_US in *. lia.
  - destruct (Z_le_gt_dec (dt_y t) 9997) as [G|G]; [exact G|exfalso].
    pose proof (first_of_month_le 119976 (12 * dt_y t) ltac:(lia)).
    unfold STEP, MAX_US in *. lia.
Qed.

Theorem tnice_total_years d0 d1 m :
  valid d0 -> valid d1 -> ms_resolution d0 -> ms_resolution d1 ->
  1900 <= dt_y d0 <= 2200 -> 1900 <= dt_y d1 <= 2200 -> 0 < m ->
  exists n0 n1, ts_nice d0 d1 m = Ok (n0, n1) /\
    valid n0 /\ valid n1 /\ ms_resolution n0 /\ ms_resolution n1 /\
    2 <= dt_y n0 <= 9997 /\ 2 <= dt_y n1 <= 9997.
Proof.
  intros V0 V1 M0 M1 Y0 Y1 Hm.
  destruct (years_in_window d0 V0 Y0) as [W0 B0]. destruct (years_in_window d1 V1 Y1) as [W1 B1].
  assert (Hs : short_span d0 d1) by (unfold short_span; lia).
  destruct (tnice_total d0 d1 m V0 V1 M0 M1 W0 W1 Hs Hm) as (n0 & n1 & E & L0 & H0 & L1 & H1).
  exists n0, n1. split; [exact E|].
  destruct (ts_nice_spec d0 d1 m n0 n1 V0 V1 M0 M1 E) as (meth & _ & Vn0 & Vn1 & A0 & A1 & _).
  assert (Hal : forall x, aligned meth x -> ms_resolution x).
  { intros x A. destruct meth as [stq|u sk]; destruct A as [A _]; [exact A|exact (boundary_ms u _ A)]. }
  repeat split; try assumption; try (apply Hal; assumption);
    try (apply (window_years n0 Vn0 L0 H0)); apply (window_years n1 Vn1 L1 H1).
Qed.
