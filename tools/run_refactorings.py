#!/venv/bin/python
"""run_refactorings.py [names…]: apply each behaviour-preserving refactoring
refactorings/R<k>.diff in a scratch worktree of /repo (removed afterwards),
run EVERY registered quick check against it (VERIF_REPO), and record in
refactorings/RESULTS.json which checks raised an alarm.  A check must never
alarm on these: they change the source, not the behaviour."""
import json
import os
import subprocess
import sys

V = os.path.dirname(os.path.dirname(os.path.abspath(__file__)))
WT = os.environ.get("VERIF_REFAC_WT") or "/root/scratch/refac_wt"
names = sys.argv[1:] or sorted(f[:-5] for f in os.listdir(V + "/refactorings") if f.endswith(".diff"))
checks = [c["property_id"] for c in json.load(open(V + "/MANIFEST.json"))["checks"]]
respath = V + "/refactorings/RESULTS.json"
results = json.load(open(respath)) if os.path.exists(respath) else {}
for n in names:
    subprocess.run(["git", "-C", "/repo", "worktree", "remove", "--force", WT], capture_output=True)
    subprocess.run(["git", "-C", "/repo", "worktree", "add", "-q", "--detach", WT, "HEAD"], check=True)
    try:
        if subprocess.run(["git", "-C", WT, "apply", V + "/refactorings/%s.diff" % n]).returncode != 0:
            results[n] = {"error": "patch does not apply"}
            continue
        t = subprocess.run(["/venv/bin/python", "-m", "pytest", "-q", "-p", "no:cacheprovider"], cwd=WT, capture_output=True, text=True)
        r = {"tests": t.stdout.strip().splitlines()[-1] if t.stdout.strip() else "?"}
        alarms = []
        for c in checks:
            env = dict(os.environ)
            env["VERIF_EVIDENCE_DIR"] = V + "/_build/refac_evidence"
            env["VERIF_REPO"] = WT
            p = subprocess.run([V + "/check", c, "--tier", "quick"], capture_output=True, text=True, cwd=V, env=env)
            vio = [l for l in p.stdout.splitlines() if l.startswith("VIOLATION")]
            if p.returncode != 0 or vio:
                why = ""
                for l in vio:
                    m = l.split("replay=")[1].split()[0]
                    if os.path.exists(m):
                        rp = json.load(open(m))
                        why = str(rp.get("why", rp.get("broken")))[:300]
                        os.remove(m)
                alarms.append({"check": c, "exit": p.returncode, "line": vio[0] if vio else None, "why": why})
        r["alarms"] = alarms
        results[n] = r
        print(n, r["tests"], "ALARMS: %s" % alarms if alarms else "no alarm from %d checks" % len(checks))
    finally:
        subprocess.run(["git", "-C", "/repo", "worktree", "remove", "--force", WT])
        json.dump(results, open(respath, "w"), indent=1, sort_keys=True)
