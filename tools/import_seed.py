#!/venv/bin/python
"""import_seed.py <name> <srcdir> <also_run,comma> <summary> <needs>: copy a sub-agent's
SEED directory (patch.diff, demo.py, notes.md) to seeded/<name>/, write meta.json, and
confirm it with tools/verify_seeded.sh."""
import json, os, shutil, subprocess, sys
V = os.path.dirname(os.path.dirname(os.path.abspath(__file__)))
name, src, also, summary, needs = sys.argv[1:6]
d = V + "/seeded/" + name
os.makedirs(d, exist_ok=True)
for f in ("patch.diff", "demo.py", "notes.md"):
    shutil.copy(src + "/" + f, d + "/" + f)
p = subprocess.run([V + "/tools/verify_seeded.sh", d], capture_output=True, text=True)
line = [l for l in p.stdout.splitlines() if l.startswith("demo clean")]
print(name, p.returncode, line)
meta = {"property": name[:3], "summary": summary, "needs_to_manifest": needs,
        "origin": "fresh sub-agent (round 4) given only the property text and a scratch worktree of /repo (nothing from /verif)",
        "confirmed": "tools/verify_seeded.sh %s : %s" % (name, line[0] if line else "FAILED"),
        "checks_expected_to_catch": [name[:3]], "also_run": [a for a in also.split(",") if a]}
json.dump(meta, open(d + "/meta.json", "w"), indent=1)
sys.exit(p.returncode)
