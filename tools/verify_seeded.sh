#!/bin/sh
# verify_seeded.sh <dir with patch.diff and demo.py>: confirms in a scratch
# worktree of /repo (removed afterwards) that (1) the demo passes and the
# suite passes without the patch, (2) with the patch the suite still passes
# and the demo fails.
set -u
D="$(cd "$1" && pwd)"
W=/tmp/seedverify.$$
git -C /repo worktree add -q --detach "$W" HEAD || exit 2
cd "$W"
/venv/bin/python "$D/demo.py" >/dev/null 2>&1; a=$?
git apply "$D/patch.diff" || { echo "patch does not apply"; cd /; git -C /repo worktree remove --force "$W"; exit 2; }
t=$(/venv/bin/python -m pytest -q -p no:cacheprovider 2>&1 | tail -1)
/venv/bin/python "$D/demo.py" >/dev/null 2>&1; b=$?
cd /; git -C /repo worktree remove --force "$W"
echo "demo clean=$a (want 0)  demo patched=$b (want 1)  tests patched: $t"
case "$t" in *"109 passed"*) ;; *) exit 1;; esac
[ "$a" = 0 ] && [ "$b" = 1 ]
