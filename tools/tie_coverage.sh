#!/bin/sh
# tie_coverage.sh [ids…]: runs the quick checks with the implementation under
# coverage.py and reports which lines and branches of /repo/labella/*.py the
# generated cases executed (generator reach; evidence goes to a scratch dir).
cd "$(dirname "$0")/.."
D=$PWD/_build/tiecov
rm -rf "$D"; mkdir -p "$D"
IDS="$*"
[ -z "$IDS" ] && IDS=$(/venv/bin/python -c "import json;print(' '.join(c['property_id'] for c in json.load(open('MANIFEST.json'))['checks']))" 2>/dev/null | grep -v conda)
for id in $IDS; do
  VERIF_COVERAGE=$D VERIF_EVIDENCE_DIR=$D/ev ./check $id --tier quick 2>&1 | grep -v conda | grep -E "^C[0-9]+ tier|VIOLATION" | cut -c1-120
done
cd "$D" && /venv/bin/python -m coverage combine -q --data-file=.coverage .coverage.* 2>/dev/null
/venv/bin/python -m coverage report --data-file=.coverage --show-missing --skip-empty 2>&1 | grep -v conda | tee "$D/report.txt"
