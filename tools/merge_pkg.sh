#!/bin/sh
# merge_pkg.sh <pkg> <paths relative to verif…>: copy source files of a package copy into /verif
P=/root/work/$1/verif; shift
for f in "$@"; do
  mkdir -p "/verif/$(dirname "$f")"
  rsync -a --exclude='*.vo' --exclude='*.vok' --exclude='*.vos' --exclude='*.glob' --exclude='.*.aux' --exclude='__pycache__' --exclude='.lia.cache' --exclude='.nia.cache' "$P/$f" "/verif/$(dirname "$f")/"
done
