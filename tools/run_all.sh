#!/bin/sh
# run_all.sh [tier]: every registered check, sequentially; summary at the end
cd "$(dirname "$0")/.."
T=${1:-quick}
rc=0
for id in $(/venv/bin/python -c "import json;print(' '.join(c['property_id'] for c in json.load(open('MANIFEST.json'))['checks']))" 2>/dev/null | grep -v conda); do
  ./check $id --tier $T 2>&1 | grep -v conda | grep -E "^(C[0-9]+ tier|VIOLATION|KNOWN-FINDING|FRAMEWORK)" || true
done
