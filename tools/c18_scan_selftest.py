"""Self-test of the C18 static scan's strftime-format resolver (harness/props/c18.py, _str_values):
which binding forms are resolved (three) and which must fail closed (seventeen)."""
import sys, ast
sys.path.insert(0,'/verif')
from harness.props import c18
def scan(src):
    sc = c18._Scan("x.py")
    sc.visit(ast.parse(src))
    return "OK" if not sc.msgs else "REJECT"
T=[("ok ifexp", "def f(d):\n    if d.day==1:\n        fmt='%Y' if d.month==1 else '%B'\n    else:\n        fmt='%a %d'\n    return d.strftime(fmt)\n"),
("zone const", "def f(d):\n    fmt='%Y'\n    if d.x:\n        fmt='%s'\n    return d.strftime(fmt)\n"),
("param", "def f(d, fmt):\n    return d.strftime(fmt)\n"),
("table Z", "T={'a':'%H','b':'%Z'}\ndef f(d,k):\n    return d.strftime(T[k])\n"),
("table ok", "T={'a':'%H','b':'%M'}\ndef f(d,k):\n    return d.strftime(T[k])\n"),
("loop var", "def f(d):\n    for fmt in ('%H','%M'):\n        d.strftime(fmt)\n"),
("concat", "def f(d):\n    fmt='%H'+x\n    return d.strftime(fmt)\n"),
("global rebind", "FMT='%H'\ndef g():\n    global FMT\n    FMT=compute()\ndef f(d):\n    return d.strftime(FMT)\n"),
("nonlocal", "def f(d):\n    fmt='%H'\n    def g():\n        nonlocal fmt\n        fmt=zz()\n    g()\n    return d.strftime(fmt)\n"),
("closure reads outer local", "fmt='%H'\ndef f(d, q):\n    fmt=q\n    def g():\n        return d.strftime(fmt)\n    return g()\n"),
("except as", "def f(d):\n    fmt='%H'\n    try:\n        pass\n    except E as fmt:\n        pass\n    return d.strftime(fmt)\n"),
("import as", "from m import X as FMT\ndef f(d):\n    return d.strftime(FMT)\n"),
("class attr", "class C:\n    fmt='%H'\n    def f(self,d):\n        return d.strftime(fmt)\n"),
("table mutated", "F={'a':'%H'}\nF['b']='%Z'\ndef f(d,k):\n    return d.strftime(F[k])\n"),
("table append", "F=['%H']\nF.append('%Z')\ndef f(d,k):\n    return d.strftime(F[k])\n"),
("slice of const", "def f(d):\n    return d.strftime('Z%'[::-1])\n"),
("index of const", "def f(d):\n    return d.strftime('%Z%H'[0:2])\n"),
("augassign", "def f(d):\n    fmt='%H'\n    fmt+='%Z'\n    return d.strftime(fmt)\n"),
("module const ok", "FMT='%H:%M'\ndef f(d):\n    return d.strftime(FMT)\n"),
("walrus", "def f(d):\n    if (fmt:=g()):\n        return d.strftime(fmt)\n"),
]
EXPECT_OK = {"ok ifexp", "table ok", "module const ok"}
bad = [n for n, src in T if (scan(src) == "OK") != (n in EXPECT_OK)]
print("c18 scan self-test: %d cases, %d wrong %r" % (len(T), len(bad), bad))
sys.exit(1 if bad else 0)
