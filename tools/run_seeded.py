#!/venv/bin/python
"""run_seeded.py [names…]: for every /verif/seeded/<name>/ apply patch.diff to
/repo, run the quick checks named in meta.json (checks_expected_to_catch and
optional also_run), undo the patch, and write seeded/RESULTS.json."""
import json
import os
import subprocess
import sys

V = os.path.dirname(os.path.dirname(os.path.abspath(__file__)))
names = sys.argv[1:] or sorted(d for d in os.listdir(V + "/seeded") if os.path.isdir(V + "/seeded/" + d))
respath = os.environ.get("VERIF_SEEDED_RESULTS") or (V + "/seeded/RESULTS.json")
results = json.load(open(respath)) if os.path.exists(respath) else {}
# The patch is applied in a scratch worktree of /repo's HEAD (removed afterwards) and the
# checks are pointed at it with VERIF_REPO, so /repo itself is never touched and builders
# running checks against /repo at the same time are not disturbed.
WT = os.environ.get("VERIF_SEEDED_WT") or "/root/scratch/seeded_wt"
for n in names:
    d = V + "/seeded/" + n
    meta = json.load(open(d + "/meta.json"))
    checks = meta["checks_expected_to_catch"] + meta.get("also_run", [])
    subprocess.run(["git", "-C", "/repo", "worktree", "remove", "--force", WT], capture_output=True)
    subprocess.run(["git", "-C", "/repo", "worktree", "add", "-q", "--detach", WT, "HEAD"], check=True)
    if subprocess.run(["git", "-C", WT, "apply", d + "/patch.diff"]).returncode != 0:
        results[n] = {"error": "patch does not apply"}
        subprocess.run(["git", "-C", "/repo", "worktree", "remove", "--force", WT])
        continue
    try:
        r = {}
        for c in checks:
            if not (os.path.exists(V + "/harness/props/%s.py" % c.lower()) and os.path.exists(V + "/coq/Props/%s.v" % c)):
                r[c] = "check not built"
                continue
            env = dict(os.environ)
            env["VERIF_EVIDENCE_DIR"] = V + "/_build/seeded_evidence"
            env["VERIF_REPO"] = WT
            p = subprocess.run([V + "/check", c, "--tier", "quick"], capture_output=True, text=True, cwd=V, env=env)
            vio = [l for l in p.stdout.splitlines() if l.startswith("VIOLATION")]
            r[c] = {"exit": p.returncode, "violation": vio[0] if vio else None}
            for l in vio:
                m = l.split("replay=")[1].split()[0]
                if os.path.exists(m):
                    rp = json.load(open(m))
                    r[c]["kind"] = rp.get("kind")
                    r[c]["why"] = str(rp.get("why", rp.get("broken")))[:300]
                    os.remove(m)
        results[n] = r
        print(n, json.dumps(r)[:400])
    finally:
        subprocess.run(["git", "-C", "/repo", "worktree", "remove", "--force", WT])
json.dump(results, open(respath, "w"), indent=1, sort_keys=True)
