#!/venv/bin/python
"""mutation_campaign.py [--n N] [--jobs J] [--seed S] [--files f1,f2]

First-order mutation campaign against the checks.  Mutants are generated with
`tokenize` from /repo/labella/*.py (comparison / arithmetic operator swaps,
numeric literal perturbations, `and`<->`or`, `not` removal, True<->False,
is / is not).  Each sampled mutant is applied in its own scratch worktree of
/repo; mutants killed by the repository's own 109 tests are set aside (the
checks are about what the tests cannot settle); for the others the quick
checks of the properties anchored in the mutated file run (VERIF_REPO,
VERIF_RUN_TAG) until one reports a violation.  Results: mutation/RESULTS.json.
A surviving mutant is either equivalent, outside every property, or a gap."""
import argparse
import io
import json
import os
import random
import subprocess
import sys
import tokenize
from concurrent.futures import ThreadPoolExecutor

V = os.path.dirname(os.path.dirname(os.path.abspath(__file__)))
CHECKS = {
    "vpsc.py": ["C05", "C01", "C02", "C06"],
    "removeOverlap.py": ["C01", "C02", "C03", "C06", "C08"],
    "force.py": ["C06", "C04", "C03", "C01"],
    "distributor.py": ["C04", "C06", "C08"],
    "node.py": ["C04", "C06", "C07", "C01"],
    "scale.py": ["C12", "C13", "C14", "C15", "C16", "C11"],
    "d3_time.py": ["C17", "C16", "C14", "C15", "C18", "C11"],
    "timeline.py": ["C07", "C08", "C09", "C10", "C11", "C20"],
    "renderer.py": ["C07", "C08", "C09"],
    "tex.py": ["C19", "C09"],
    "utils.py": ["C20", "C09"],
}
SWAPS = {"<": ["<=", ">"], "<=": ["<", ">="], ">": [">=", "<"], ">=": [">", "<="], "==": ["!="], "!=": ["=="],
         "+": ["-"], "-": ["+"], "*": ["/"], "/": ["*"], "//": ["/"], "%": ["//"], "+=": ["-="], "-=": ["+="]}
NAMES = {"and": ["or"], "or": ["and"], "True": ["False"], "False": ["True"]}


def mutants_of(path):
    src = open(path, encoding="utf-8").read()
    toks = list(tokenize.generate_tokens(io.StringIO(src).readline))
    lines = src.splitlines(keepends=True)
    out = []
    depth_doc = False
    for i, t in enumerate(toks):
        reps = []
        if t.type == tokenize.OP and t.string in SWAPS:
            # skip unary minus / plus and the * of *args
            prev = toks[i - 1] if i else None
            if t.string in "+-*" and (prev is None or prev.type == tokenize.OP and prev.string not in (")", "]", "}")
                                      or prev.type in (tokenize.NEWLINE, tokenize.NL, tokenize.INDENT)
                                      or prev.type == tokenize.NAME and prev.string in ("return", "in", "and", "or", "not", "if", "else", "lambda")):
                continue
            reps = SWAPS[t.string]
        elif t.type == tokenize.NAME and t.string in NAMES:
            reps = NAMES[t.string]
        elif t.type == tokenize.NAME and t.string == "not":
            reps = [""]
        elif t.type == tokenize.NUMBER:
            s = t.string
            try:
                if any(c in s for c in ".eE") and not s.startswith("0x"):
                    v = float(s)
                    reps = [repr(v * 2) if v else "1.0", repr(v / 2) if v else "-1.0"]
                else:
                    v = int(s, 0)
                    reps = [str(v + 1), str(v - 1)]
            except ValueError:
                continue
        for r in reps:
            (l0, c0), (l1, c1) = t.start, t.end
            if l0 != l1:
                continue
            line = lines[l0 - 1]
            new = line[:c0] + r + line[c1:]
            out.append({"file": os.path.basename(path), "line": l0, "col": c0, "orig": t.string, "new": r,
                        "text": line.strip()[:100], "new_line": new})
    return out


def run_one(k, m, args):
    wt = "/root/scratch/mutc_%d" % k
    subprocess.run(["git", "-C", "/repo", "worktree", "remove", "--force", wt], capture_output=True)
    subprocess.run(["git", "-C", "/repo", "worktree", "add", "-q", "--detach", wt, "HEAD"], check=True, capture_output=True)
    res = dict(m)
    res.pop("new_line")
    try:
        p = os.path.join(wt, "labella", m["file"])
        lines = open(p, encoding="utf-8").read().splitlines(keepends=True)
        lines[m["line"] - 1] = m["new_line"]
        open(p, "w", encoding="utf-8").write("".join(lines))
        try:
            compile(open(p, encoding="utf-8").read(), p, "exec")
        except SyntaxError:
            res["status"] = "invalid"
            return res
        t = subprocess.run(["/venv/bin/python", "-m", "pytest", "-q", "-x", "-p", "no:cacheprovider", "--timeout=120"],
                           cwd=wt, capture_output=True, text=True, timeout=900)
        if t.returncode != 0:
            res["status"] = "killed-by-tests"
            return res
        res["status"] = "survived"
        res["checks"] = {}
        for c in CHECKS[m["file"]]:
            env = dict(os.environ)
            env.update({"VERIF_REPO": wt, "VERIF_RUN_TAG": "m%d" % k, "VERIF_EVIDENCE_DIR": V + "/_build/mut_evidence_%d" % k})
            try:
                q = subprocess.run([V + "/check", c, "--tier", "quick"], capture_output=True, text=True, cwd=V, env=env, timeout=1500)
            except subprocess.TimeoutExpired:
                res["checks"][c] = "timeout"
                res["status"] = "killed"
                res["killed_by"] = c + " (timeout)"
                break
            vio = [l for l in q.stdout.splitlines() if l.startswith("VIOLATION")]
            for l in vio:
                rp = l.split("replay=")[1].split()[0]
                if os.path.exists(rp):
                    try:
                        d = json.load(open(rp))
                        res.setdefault("why", str(d.get("why", d.get("broken")))[:200])
                    except Exception:
                        pass
                    os.remove(rp)
            res["checks"][c] = q.returncode
            if q.returncode != 0:
                res["status"] = "killed"
                res["killed_by"] = c
                res["kind"] = "no-failing-input-found" if any("no-failing-input-found" in l for l in vio) else "failing-input"
                break
        return res
    finally:
        subprocess.run(["git", "-C", "/repo", "worktree", "remove", "--force", wt], capture_output=True)
        import glob
        import shutil
        for d in [V + "/_build/mut_evidence_%d" % k, V + "/_build/props_m%d" % k] + glob.glob(V + "/_build/run/*_m%d" % k):
            shutil.rmtree(d, ignore_errors=True)


def main():
    ap = argparse.ArgumentParser()
    ap.add_argument("--n", type=int, default=120)
    ap.add_argument("--jobs", type=int, default=4)
    ap.add_argument("--seed", type=int, default=0)
    ap.add_argument("--files", default=",".join(CHECKS))
    a = ap.parse_args()
    allm = []
    for f in a.files.split(","):
        allm += mutants_of(os.path.join("/repo/labella", f))
    rng = random.Random(a.seed)
    rng.shuffle(allm)
    sample = allm[:a.n]
    print("generated %d mutants, sampling %d" % (len(allm), len(sample)), flush=True)
    os.makedirs(V + "/mutation", exist_ok=True)
    out = V + "/mutation/RESULTS_seed%d.json" % a.seed
    results = []
    with ThreadPoolExecutor(max_workers=a.jobs) as ex:
        for r in ex.map(lambda km: run_one(km[0], km[1], a), enumerate(sample)):
            results.append(r)
            print("%s:%d %r->%r  %s %s" % (r["file"], r["line"], r["orig"], r["new"], r["status"], r.get("killed_by", "")), flush=True)
            json.dump({"generated": len(allm), "results": results}, open(out, "w"), indent=1)
    from collections import Counter
    print(Counter(r["status"] for r in results))


main()
